/* Ghost allocation ledger (C15): include AFTER <asn_internal.h> and BEFORE the unit's .c file.  The library reaches the
 * allocator only through the MALLOC/CALLOC/REALLOC macros of asn_internal.h; they are redirected to wrappers that record
 * the largest single request and then call the real allocator.  (Mechanical macro redirection of the allocator only;
 * nothing else of the verified text changes.) */
#ifndef VF_ALLOC_H
#define VF_ALLOC_H
static size_t vf_alloc_peak_request, vf_alloc_total_requested;
static void vf_alloc_note(size_t n) { if(n > vf_alloc_peak_request) vf_alloc_peak_request = n; vf_alloc_total_requested += n; }
static void *vf_malloc(size_t n) { vf_alloc_note(n); return malloc(n); }
static void *vf_calloc(size_t a, size_t b) { vf_alloc_note(a * b); return calloc(a, b); }
static void *vf_realloc(void *p, size_t n) { vf_alloc_note(n); return realloc(p, n); }
#undef MALLOC
#undef CALLOC
#undef REALLOC
#define MALLOC(size) vf_malloc(size)
#define CALLOC(nmemb, size) vf_calloc(nmemb, size)
#define REALLOC(oldptr, size) vf_realloc(oldptr, size)
#endif
