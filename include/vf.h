/*
 * vf.h -- harness support, usable in two modes:
 *   (default)  compiled by goto-cc for CBMC: inputs are nondeterministic
 *   VF_NATIVE  compiled by gcc for replay: inputs come from vf_replay_inputs.h
 * Harnesses declare every input through VF_SCALAR / VF_BYTES so that the driver
 * can pull the counterexample out of the CBMC trace and re-run the harness
 * natively on /repo's real sources.
 */
#ifndef VF_H
#define VF_H
#include <stddef.h>
#include <stdint.h>
#include <stdlib.h>
#include <string.h>

#ifdef VF_GRID
/* grid mode: a native driver (harness/grid_*.c) includes the harness with VF_GRID defined, fills the input table and calls
 * the entry functions many times in one process: the same assertions as under CBMC, evaluated on enumerated inputs. */
#include <stdio.h>
#include <setjmp.h>
struct vf_grid_in { const char *name; unsigned __int128 scalar; const unsigned char *bytes; size_t nbytes; };
static struct vf_grid_in vf_grid_tab[8]; static int vf_grid_n;
static jmp_buf vf_grid_jmp; static int vf_grid_skipped;
static unsigned long long vf_grid_evaluated, vf_grid_failed; static char vf_grid_first[400];
static void vf_grid_describe(char *o, size_t n) {
	size_t l = 0; for(int i = 0; i < vf_grid_n && l + 8 < n; i++) {
		l += (size_t)snprintf(o + l, n - l, "%s=", vf_grid_tab[i].name);
		if(vf_grid_tab[i].bytes) { for(size_t j = 0; j < vf_grid_tab[i].nbytes && l + 4 < n; j++) l += (size_t)snprintf(o + l, n - l, "%02x", vf_grid_tab[i].bytes[j]); }
		else l += (size_t)snprintf(o + l, n - l, "%llu", (unsigned long long)vf_grid_tab[i].scalar);
		if(l + 2 < n) o[l++] = ' ';
	}
	o[l < n ? l : n - 1] = 0;
}
static unsigned __int128 vf_grid_scalar(const char *name) { for(int i = 0; i < vf_grid_n; i++) if(!vf_grid_tab[i].bytes && !strcmp(vf_grid_tab[i].name, name)) return vf_grid_tab[i].scalar; return 0; }
static void vf_grid_bytes(const char *name, unsigned char *dst, size_t n) {
	memset(dst, 0, n);
	for(int i = 0; i < vf_grid_n; i++) if(vf_grid_tab[i].bytes && !strcmp(vf_grid_tab[i].name, name)) memcpy(dst, vf_grid_tab[i].bytes, vf_grid_tab[i].nbytes < n ? vf_grid_tab[i].nbytes : n);
}
#define __CPROVER_assume(c) do { if(!(c)) { vf_grid_skipped = 1; longjmp(vf_grid_jmp, 1); } } while(0)
#define __CPROVER_assert(c, msg) do { if(!(c)) { if(!vf_grid_failed++) { char d_[300]; vf_grid_describe(d_, sizeof(d_)); snprintf(vf_grid_first, sizeof(vf_grid_first), "%s [%s]", msg, d_); } } } while(0)
#define VF_SCALAR(type, name) type name = (type)vf_grid_scalar(#name)
#define VF_BYTES(name, N) unsigned char name[N]; vf_grid_bytes(#name, name, N)
#define VF_CANARY() do { } while(0)
#define VF_MAIN(fn)
#define VF_NATIVE_MAIN
#define VF_IS_NATIVE 1
/* run one case: VF_GRID_RUN(entry) after filling vf_grid_tab / vf_grid_n */
#include <signal.h>
#include <unistd.h>
static void vf_grid_alarm(int sig) { char d_[300]; (void)sig; vf_grid_describe(d_, sizeof(d_)); printf("VF-GRID: FAIL the call does not terminate within 10 s [%s]\nVF-GRID: evaluated %llu failed %llu\n", d_, vf_grid_evaluated + 1, vf_grid_failed + 1); fflush(stdout); _exit(1); }
#define VF_GRID_RUN(entry) do { vf_grid_skipped = 0; signal(SIGALRM, vf_grid_alarm); alarm(10); if(!setjmp(vf_grid_jmp)) { entry(); } alarm(0); if(!vf_grid_skipped) vf_grid_evaluated++; } while(0)
#define VF_GRID_SUMMARY() (printf("%s%s%sVF-GRID: evaluated %llu failed %llu\n", vf_grid_failed ? "VF-GRID: FAIL " : "", vf_grid_failed ? vf_grid_first : "", vf_grid_failed ? "\n" : "", vf_grid_evaluated, vf_grid_failed), fflush(stdout), vf_grid_failed ? 1 : 0)
#elif defined(VF_NATIVE)
#include <stdio.h>
static int vf_failed;
#define __CPROVER_assume(c) do { if(!(c)) { printf("VF-REPLAY: assumption not met: %s\n", #c); exit(77); } } while(0)
#define __CPROVER_assert(c, msg) do { if(!(c)) { printf("VF-REPLAY: FAILED %s (%s:%d)\n", msg, __FILE__, __LINE__); vf_failed = 1; } } while(0)
/* inputs come from the text file named by $VF_REPLAY_INPUTS: "name hex" / "name bytes hex" */
static int vf_lookup(const char *name, char *out, size_t outsz) {
	const char *path = getenv("VF_REPLAY_INPUTS");
	FILE *f = path ? fopen(path, "r") : 0;
	char n[128], kind[80];
	if(!f) return 0;
	while(fscanf(f, "%127s %79s", n, kind) == 2) {
		if(strcmp(kind, "bytes") == 0) { if(fscanf(f, "%*[ ]%65535[0-9a-fA-F]", out) != 1) out[0] = 0; }
		else { strncpy(out, kind, outsz - 1); out[outsz - 1] = 0; }
		if(strcmp(n, name) == 0) { fclose(f); return 1; }
	}
	fclose(f);
	return 0;
}
static unsigned __int128 vf_input_scalar(const char *name) {
	static char buf[65536];
	unsigned __int128 v = 0;
	const char *p;
	if(!vf_lookup(name, buf, sizeof(buf))) { printf("VF-REPLAY: input %s missing, using 0\n", name); return 0; }
	for(p = buf; *p; p++) { int c = *p; int d = c >= 'a' ? c - 'a' + 10 : c >= 'A' ? c - 'A' + 10 : c - '0'; v = (v << 4) | (unsigned)d; }
	return v;
}
static void vf_input_bytes(const char *name, unsigned char *dst, size_t n) {
	static char buf[65536];
	size_t i;
	memset(dst, 0, n);
	if(!vf_lookup(name, buf, sizeof(buf))) { printf("VF-REPLAY: input %s missing, using zeros\n", name); return; }
	for(i = 0; i < n && buf[2 * i] && buf[2 * i + 1]; i++) { unsigned x; sscanf(buf + 2 * i, "%2x", &x); dst[i] = (unsigned char)x; }
}
#define VF_SCALAR(type, name) type name = (type)vf_input_scalar(#name)
#define VF_BYTES(name, N) unsigned char name[N]; vf_input_bytes(#name, name, N)
#define VF_CANARY() do { } while(0)
#define VF_MAIN(fn)
/* the driver compiles with -DVF_ENTRY=<entry function>; put VF_NATIVE_MAIN at the end of the harness file */
#define VF_NATIVE_MAIN int main(void) { VF_ENTRY(); if(vf_failed) { printf("VF-REPLAY: reproduced\n"); return 1; } printf("VF-REPLAY: not reproduced\n"); return 0; }
#define VF_IS_NATIVE 1
#else
#define VF_CAT_(a, b, c) a##b##_##c
#define VF_CAT(a, b, c) VF_CAT_(a, b, c)
#define VF_SCALAR(type, name) type VF_CAT(nondet_vf_, name, __LINE__)(void); type name = VF_CAT(nondet_vf_, name, __LINE__)()
#define VF_BYTES(name, N) struct VF_CAT(vf_bytes_, name, __LINE__) { unsigned char b[N]; }; \
	struct VF_CAT(vf_bytes_, name, __LINE__) VF_CAT(nondet_vf_, name, __LINE__)(void); \
	struct VF_CAT(vf_bytes_, name, __LINE__) name##_s = VF_CAT(nondet_vf_, name, __LINE__)(); \
	unsigned char *name = name##_s.b
/* must be reported FAILURE by CBMC: the post-state of the call is reachable */
#define VF_CANARY() __CPROVER_assert(0, "vf_canary_reachable")
#define VF_MAIN(fn)
#define VF_NATIVE_MAIN
#define VF_IS_NATIVE 0
#endif

/* known-finding region: mode 0 = normal, 1 = exclude the region, 2 = only the region */
#define VF_FINDING(mode, cond) do { if((mode) == 1) __CPROVER_assume(!(cond)); else if((mode) == 2) __CPROVER_assume(cond); } while(0)

/* a heap buffer of symbolic size whose first 16 octets are mirrored in a named witness
 * (so that they appear in the trace); the rest of the buffer stays arbitrary under CBMC
 * and is zero natively. */
#ifdef VF_NATIVE
#define VF_HEAPBUF(name, size) \
	VF_BYTES(name##_w, 16); \
	unsigned char *name = (unsigned char *)calloc((size) ? (size) : 1, 1); \
	if(!name) { printf("VF-REPLAY: cannot allocate %zu\n", (size_t)(size)); exit(77); } \
	memcpy(name, name##_w, (size) < 16 ? (size) : 16)
#else
#define VF_HEAPBUF(name, size) \
	VF_BYTES(name##_w, 16); \
	unsigned char *name = (unsigned char *)malloc(size); \
	__CPROVER_assume(name != 0); \
	if((size) > 0) name[0] = name##_w[0]; if((size) > 1) name[1] = name##_w[1]; \
	if((size) > 2) name[2] = name##_w[2]; if((size) > 3) name[3] = name##_w[3]; \
	if((size) > 4) name[4] = name##_w[4]; if((size) > 5) name[5] = name##_w[5]; \
	if((size) > 6) name[6] = name##_w[6]; if((size) > 7) name[7] = name##_w[7]; \
	if((size) > 8) name[8] = name##_w[8]; if((size) > 9) name[9] = name##_w[9]; \
	if((size) > 10) name[10] = name##_w[10]; if((size) > 11) name[11] = name##_w[11]; \
	if((size) > 12) name[12] = name##_w[12]; if((size) > 13) name[13] = name##_w[13]; \
	if((size) > 14) name[14] = name##_w[14]; if((size) > 15) name[15] = name##_w[15]
#endif

#endif /* VF_H */
