/* recording output callback shared by encoder harnesses: logs the first VF_CB_CAP bytes, counts
 * every byte and call, and fails (returns -1) at the call index chosen by the harness */
#ifndef VF_CB_H
#define VF_CB_H
#ifndef VF_CB_CAP
#define VF_CB_CAP 64
#endif
static unsigned char vf_cb_log[VF_CB_CAP];
static size_t vf_cb_bytes, vf_cb_calls;
static long vf_cb_fail_at = -1;     /* -1: never fail */
static int vf_cb_failed;
static void *vf_cb_key_seen;
/* ghost index: the harness may pick one stream position to watch ("for all positions" by nondeterminism) */
static size_t vf_cb_watch = (size_t)-1;
static unsigned char vf_cb_watched;
static int vf_cb_watch_hit;
static int vf_cb(const void *buffer, size_t size, void *key) {
	size_t i;
	vf_cb_key_seen = key;
	if(vf_cb_fail_at >= 0 && (long)vf_cb_calls == vf_cb_fail_at) { vf_cb_calls++; vf_cb_failed = 1; return -1; }
	vf_cb_calls++;
	if(vf_cb_watch >= vf_cb_bytes && vf_cb_watch - vf_cb_bytes < size) {
		vf_cb_watched = ((const unsigned char *)buffer)[vf_cb_watch - vf_cb_bytes]; vf_cb_watch_hit = 1;
	}
	for(i = 0; i < VF_CB_CAP; i++)
		if(i < size && vf_cb_bytes + i < VF_CB_CAP) vf_cb_log[vf_cb_bytes + i] = ((const unsigned char *)buffer)[i];
	vf_cb_bytes += size;
	return 0;
}
#endif
