#!/usr/bin/env python3
"""
vf.py -- driver for contract-based verification of /repo (vlm/asn1c) with CBMC.

  vf.py check <PROPERTY> [--tier quick|thorough] [--only OBL[,OBL]] [--keep] [--jobs N]
  vf.py run   <OBL>[,<OBL>...] [--keep]        (development: run obligations, no evidence)
  vf.py list  [PROPERTY]
  vf.py replay <replay.json>

Exit codes: 0 every obligation discharged (KNOWN-FINDING lines may be printed),
            1 VIOLATION (named obligation failed), 2 UNDECIDED (timeout, tool error,
            extraction break, vacuity alarm).
"""
import threading, sys, os, re, json, time, shutil, subprocess, resource, hashlib, argparse, traceback
from concurrent.futures import ThreadPoolExecutor

HERE = os.path.dirname(os.path.abspath(__file__))
VERIF = os.path.dirname(HERE)
REPO = os.environ.get('VF_REPO', '/repo')
sys.path.insert(0, VERIF)
sys.path.insert(0, HERE)
import inject as inj

DEFAULT_CHECKS = ['--bounds-check', '--pointer-check', '--signed-overflow-check',
                  '--undefined-shift-check', '--div-by-zero-check']
SRC_DIRS = ['skeletons', 'libasn1fix', 'libasn1parser', 'libasn1common', 'libasn1compiler',
            'libasn1print', 'asn1-tools/unber', 'asn1-tools/enber']
GUARD = 'VLM_ASN1C_VERIF'
CANARY = 'vf_canary_reachable'
BACKEND_FLAGS = {'sat': [], 'cadical': ['--sat-solver', 'cadical'], 'cvc5': ['--cvc5'], 'z3': ['--z3'],
                 'kissat': ['--external-sat-solver', 'kissat']}


def log(*a):
    print(*a, flush=True)


def load_registry():
    import obligations
    return obligations.OBLIGATIONS


def load_findings():
    p = os.path.join(VERIF, 'known_findings.json')
    if not os.path.exists(p):
        return []
    return json.load(open(p))['findings']


# ----------------------------------------------------------------------------
# staging: copy of /repo's current working tree + loop-contract injection
# ----------------------------------------------------------------------------
class Stage:
    def __init__(self, root):
        self.root = root
        self.src = os.path.join(root, 'src')
        self.srcL = os.path.join(root, 'srcL')
        self.inject_report = {}
        self.inject_error = {}

    def build(self):
        os.makedirs(self.src, exist_ok=True)
        for d in SRC_DIRS:
            sd = os.path.join(REPO, d)
            dd = os.path.join(self.src, d)
            os.makedirs(dd, exist_ok=True)
            for f in os.listdir(sd):
                if f.endswith('.c') or f.endswith('.h'):
                    shutil.copy2(os.path.join(sd, f), os.path.join(dd, f))
        for f in ('config.h',):
            if os.path.exists(os.path.join(REPO, f)):
                shutil.copy2(os.path.join(REPO, f), os.path.join(self.src, f))
        # srcL = same tree with loop contracts injected (used only by obligations with loops=True)
        self.srcL = os.path.join(self.root, 'srcL')
        shutil.copytree(self.src, self.srcL)
        ldir = os.path.join(VERIF, 'loops')
        for lf in sorted(os.listdir(ldir)) if os.path.isdir(ldir) else []:
            if not lf.endswith('.loops'):
                continue
            unit = lf[:-len('.loops')].replace('__', '/')
            path = os.path.join(self.srcL, unit)
            try:
                entries = inj.parse_loops_file(open(os.path.join(ldir, lf)).read())
                src = open(path, encoding='latin-1').read()
                new, rep = inj.inject(src, entries)
                open(path, 'w', encoding='latin-1').write(new)
                self.inject_report[unit] = rep
            except (inj.InjectError, OSError) as e:
                self.inject_error[unit] = str(e)


# ----------------------------------------------------------------------------
# one obligation
# ----------------------------------------------------------------------------
def limit_mem(gb):
    def f():
        b = int(gb * (1 << 30))
        resource.setrlimit(resource.RLIMIT_AS, (b, b))
    return f


def run_cmd(cmd, timeout, mem_gb=12, cwd=None):
    t0 = time.time()
    # own process group, so that a timeout also kills the SMT solver cbmc spawned
    p = subprocess.Popen(cmd, stdout=subprocess.PIPE, stderr=subprocess.PIPE, preexec_fn=limit_mem(mem_gb), cwd=cwd, start_new_session=True)
    try:
        out, err = p.communicate(timeout=timeout)
        return p.returncode, out.decode('utf-8', 'replace'), err.decode('utf-8', 'replace'), time.time() - t0
    except subprocess.TimeoutExpired:
        try:
            os.killpg(p.pid, 9)
        except Exception:
            p.kill()
        out, err = p.communicate()
        return -999, (out or b'').decode('utf-8', 'replace'), 'TIMEOUT', time.time() - t0


def parse_cbmc_json(out):
    """Return (results list, messages list, prover status)."""
    try:
        data = json.loads(out)
    except Exception:
        # truncated output (timeout / crash): try to salvage
        return None, [], None
    results, msgs, status = [], [], None
    for el in data:
        if 'result' in el:
            results = el['result']
        if 'messageText' in el:
            msgs.append(el['messageText'])
        if 'cProverStatus' in el:
            status = el['cProverStatus']
    return results, msgs, status


def value_of(v):
    """Convert a CBMC JSON value to python (int / list / dict)."""
    if v is None:
        return None
    n = v.get('name')
    if n in ('integer', 'pointer', 'boolean', 'float', 'unknown') or 'binary' in v:
        if 'binary' in v and n != 'pointer':
            b = v['binary']
            return {'bits': b, 'data': v.get('data'), 'width': v.get('width', len(b))}
        return {'data': v.get('data')}
    if n == 'struct':
        return {m['name']: value_of(m['value']) for m in v.get('members', [])}
    if n == 'array':
        els = v.get('elements', [])
        return [value_of(e['value']) for e in sorted(els, key=lambda e: e['index'])]
    if n == 'union':
        return {'union': value_of(v.get('value')) if 'value' in v else None}
    return {'data': v.get('data')}


def extract_inputs(trace, entry, harness_file=None):
    """Final value of each harness-level variable (inputs are initialised from nondet_vf_* once).
    CBMC reports struct/array assignments piecewise (x, x.b, x.b[3l]), so paths are applied in order."""
    inputs = {}
    # names declared through VF_SCALAR / VF_BYTES (their initialisers are calls to nondet_vf_<name>_<line>)
    declared = set()
    for st in trace:
        mo = re.match(r'return_value_nondet_vf_(.+)_\d+$', st.get('lhs', '') or '')
        if mo:
            declared.add(mo.group(1))
            declared.add(mo.group(1) + '_s')
    for st in trace:
        if st.get('stepType') != 'assignment' or st.get('assignmentType') == 'actual-parameter':
            continue
        lhs = st.get('lhs', '')
        fn = st.get('sourceLocation', {}).get('function')
        if fn != entry and not (harness_file and st.get('sourceLocation', {}).get('file', '').endswith(harness_file)):
            continue
        mo = re.match(r'([A-Za-z_][A-Za-z0-9_]*)((?:\.[A-Za-z_][A-Za-z0-9_]*|\[\d+l?\])*)$', lhs)
        if not mo:
            continue
        name, path = mo.group(1), mo.group(2)
        if name.startswith('return_value_') or name.startswith('tmp_') or name.startswith('__'):
            continue
        if declared and name not in declared:
            continue
        val = value_of(st.get('value'))
        if not path:
            inputs[name] = val
            continue
        cur = inputs.get(name)
        steps = re.findall(r'\.([A-Za-z_][A-Za-z0-9_]*)|\[(\d+)l?\]', path)
        ok = True
        for n, (fld, idx) in enumerate(steps):
            last = n == len(steps) - 1
            key = fld if fld else int(idx)
            if fld:
                if not isinstance(cur, dict):
                    ok = False
                    break
            else:
                if not isinstance(cur, list) or key >= len(cur):
                    ok = False
                    break
            if last:
                cur[key] = val
            else:
                cur = cur[key]
    return inputs


def c_literal(val):
    if isinstance(val, dict) and 'bits' in val:
        w = len(val['bits'])
        x = int(val['bits'], 2)
        if w <= 64:
            return '0x%xULL' % x
        return '((((unsigned __int128)0x%xULL) << 64) | 0x%xULL)' % (x >> 64, x & ((1 << 64) - 1))
    return None


def write_replay_inputs(inputs, path):
    lines = []
    for name, val in inputs.items():
        if isinstance(val, dict) and 'b' in val and isinstance(val['b'], list):
            nm = name[:-2] if name.endswith('_s') else name
            bs = [int(e['bits'], 2) if e and 'bits' in e else 0 for e in val['b']]
            lines.append('%s bytes %s' % (nm, ''.join('%02x' % b for b in bs)))
        elif isinstance(val, dict) and 'bits' in val:
            lines.append('%s %x' % (name, int(val['bits'], 2)))
    open(path, 'w').write('\n'.join(lines) + '\n')


def pretty_inputs(inputs):
    out = {}
    for name, val in inputs.items():
        if isinstance(val, dict) and 'b' in val and isinstance(val['b'], list):
            nm = name[:-2] if name.endswith('_s') else name
            out[nm] = ' '.join('%02x' % (int(e['bits'], 2) if e and 'bits' in e else 0) for e in val['b'])
        elif isinstance(val, dict) and 'bits' in val:
            out[name] = val.get('data') if val.get('data') is not None else hex(int(val['bits'], 2))
    return out


_native_lock = __import__('threading').Lock()


def native_lib(root):
    """Static archive of /repo's skeleton library (current working tree), built once per run with
    ASan+UBSan; the linker pulls only members the replay harness does not define itself."""
    with _native_lock:
        d = os.path.join(root, 'nativelib')
        lib = os.path.join(d, 'libsk.a')
        if os.path.exists(lib):
            return lib
        if os.path.exists(d):
            return None
        os.makedirs(d)
        srcs = [f for f in sorted(os.listdir(os.path.join(REPO, 'skeletons')))
                if f.endswith('.c') and f != 'converter-example.c']
        mk = ['all: libsk.a', 'CFLAGS=-std=gnu99 -O0 -g -w -fsanitize=address,undefined -fno-sanitize-recover=undefined -I%s -I%s'
              % (os.path.join(REPO, 'skeletons'), REPO)]
        objs = []
        for f in srcs:
            o = f[:-2] + '.o'
            objs.append(o)
            mk.append('%s: %s\n\tgcc $(CFLAGS) -c $< -o $@' % (o, os.path.join(REPO, 'skeletons', f)))
        mk.append('libsk.a: %s\n\tar rcs $@ $^' % ' '.join(objs))
        open(os.path.join(d, 'Makefile'), 'w').write('\n'.join(mk) + '\n')
        rc, out, err, dt = run_cmd(['make', '-j16', '-C', d], 600, 64)
        return lib if rc == 0 and os.path.exists(lib) else None


class Obl:
    """Execution of one registry entry (possibly in a finding-region mode)."""

    def __init__(self, spec, stage, tier, defines=None, tag=''):
        self.s = spec
        self.stage = stage
        self.tier = tier
        self.defines = defines or []
        self.tag = tag
        self.id = spec['id'] + (('@' + tag) if tag else '')
        self.dir = os.path.join(stage.root, 'obl', self.id.replace('/', '_').replace('@', '_'))
        self.res = {'id': self.id, 'obligation': spec['id'], 'kind': spec.get('kind', 'enforce'),
                    'functions': spec.get('functions', spec.get('enforce', [])),
                    'status': 'UNDECIDED', 'why': '', 'cbmc_properties': 0, 'discharged': 0,
                    'failed': [], 'solver_s': 0.0, 'backend': '',
                    'bound': spec.get('bound'), 'replaced': spec.get('replace', []),
                    'cmd': ''}

    def restrict_fps(self, a, out):
        """Function-pointer call sites are resolved by CBMC to every address-taken function of the same
        type; fp_restrict = [(regex on the call expression, [targets])] narrows listed sites to the
        functions that can actually be stored there in this harness (checked by CBMC: a call to any
        other target fails the generated 'pointer must be one of' assertion)."""
        rc, txt, err, dt = run_cmd(['goto-instrument', '--show-goto-functions', a], 300)
        if rc != 0:
            return 'cannot list goto functions'
        restr = {}
        fn = None
        count = {}
        defined = set(re.findall(r'^([A-Za-z_][A-Za-z0-9_$]*) /\* ', txt, re.M))
        for line in txt.splitlines():
            mo = re.match(r'^([A-Za-z_][A-Za-z0-9_$]*) /\* ', line)
            if mo:
                fn = mo.group(1)
                continue
            if fn and 'CALL' in line and re.search(r'CALL\s+(?:\S+\s*:=\s*)?\*', line):
                count[fn] = count.get(fn, 0) + 1
                # callee expression only (not the arguments)
                k = re.search(r'CALL\s+(?:\S+\s*:=\s*)?\*', line).end()
                if k < len(line) and line[k] == '(':
                    depth = 0
                    e = k
                    while e < len(line):
                        depth += line[e] == '('
                        depth -= line[e] == ')'
                        e += 1
                        if depth == 0:
                            break
                    callee = line[k:e]
                else:
                    callee = re.match(r'[A-Za-z0-9_:$.]*', line[k:]).group(0)
                for rx, targets in self.s['fp_restrict']:
                    if re.search(rx, callee):
                        restr['%s.function_pointer_call.%d' % (fn, count[fn])] = [t for t in targets if t in defined]
                        break
        f = os.path.join(self.dir, 'fp_restrict.json')
        json.dump(restr, open(f, 'w'), indent=1)
        rc, o, e, dt = run_cmd(['goto-instrument', '--function-pointer-restrictions-file', f, a, out], 300)
        if rc != 0:
            return 'function pointer restriction failed: ' + (e.strip().splitlines() or o.strip().splitlines() or ['?'])[-1][:200]
        return None

    def static_excludes(self, a):
        rc, out, err, dt = run_cmd(['goto-instrument', '--show-symbol-table', '--json-ui', a], 300)
        ex = []
        try:
            data = json.loads(out)
        except Exception:
            return ex
        havoc = set(self.s.get('havoc_statics', []))
        for el in data:
            for name, sym in (el.get('symbolTable') or {}).items():
                if not sym.get('isStaticLifetime') or sym.get('isType'):
                    continue
                if name.startswith('__CPROVER') or name in havoc:
                    continue
                tid = (sym.get('type') or {}).get('id')
                f = (sym.get('location') or {}).get('file', '')
                if tid == 'code' or f.startswith(self.stage.root) or f.startswith(VERIF):
                    ex += ['--nondet-static-exclude', name]
        return ex

    def undecided(self, why):
        self.res['status'] = 'UNDECIDED'
        self.res['why'] = why
        return self.res

    def cc_cmd(self, out):
        s = self.s
        cmd = ['goto-cc', '--function', s['entry'], '-std=gnu99', '-DVF_CBMC', '-D' + GUARD,
               '-D__builtin_nanf(x)=(0.0f/0.0f)', '-D__builtin_nan(x)=(0.0/0.0)',
               '-I', os.path.join(VERIF, 'include'), '-I', VERIF]
        tree = self.stage.srcL if s.get('loops') else self.stage.src
        for d in s.get('incdirs', ['skeletons']):
            cmd += ['-I', os.path.join(tree, d)]
        cmd += ['-I', tree]
        for d in self.defines + s.get('defines', []):
            cmd.append('-D' + d)
        if s.get('big_endian'):
            cmd.append('--big-endian')
        for h in s.get('include', []):
            cmd += ['-include', os.path.join(VERIF, h)]
        cmd.append(os.path.join(VERIF, s['harness']))
        for u in s.get('link', []):
            cmd.append(os.path.join(tree, u))
        for u in s.get('stubs', []):
            cmd.append(os.path.join(VERIF, u))
        cmd += ['-o', out]
        return cmd

    def run_native(self):
        """Bounded stand-in that executes the real code natively (grid / exhaustive loop)."""
        s = self.s
        os.makedirs(self.dir, exist_ok=True)
        exe = os.path.join(self.dir, 'grid')
        cmd = ['gcc', '-std=gnu99', '-O1', '-g', '-w', '-D' + GUARD, '-fsanitize=address,undefined',
               '-fno-sanitize-recover=undefined', '-I', os.path.join(VERIF, 'include'), '-I', VERIF]
        for d in s.get('incdirs', ['skeletons']):
            cmd += ['-I', os.path.join(REPO, d)]
        for d in self.defines + s.get('defines', []):
            cmd.append('-D' + d)
        cmd += ['-I', REPO, '-I', os.path.join(VERIF, 'harness'), os.path.join(VERIF, s['harness'])]
        lib = native_lib(self.stage.root)
        if lib:
            cmd.append(lib)
        cmd += ['-o', exe, '-lm']
        rc, out, err, dt = run_cmd(cmd, 600, 64)
        if rc != 0:
            return self.undecided('native harness does not build: ' + (err.strip().splitlines() or ['?'])[-1][:300])
        self.res['cmd'] = ' '.join(cmd)
        t0 = time.time()
        try:
            p = subprocess.run([exe], stdout=subprocess.PIPE, stderr=subprocess.STDOUT, timeout=s.get('timeout', 600),
                               env=dict(os.environ, ASAN_OPTIONS='detect_leaks=1'))
        except subprocess.TimeoutExpired:
            return self.undecided('native grid timeout')
        text = p.stdout.decode('utf-8', 'replace')
        self.res['solver_s'] = round(time.time() - t0, 2)
        self.res['backend'] = 'native execution (gcc, ASan+UBSan)'
        mo = re.search(r'VF-GRID: evaluated (\d+) failed (\d+)', text)
        if not mo:
            san = re.search(r'ERROR: AddressSanitizer: [^\n]*|ERROR: LeakSanitizer: [^\n]*|runtime error: [^\n]*|Assertion [^\n]* failed', text)
            if san and p.returncode != 0:
                # the real code died under the sanitizers (or on a library assert) before the grid finished: a definite violation
                self.res['status'] = 'FAIL'
                self.res['cbmc_properties'] = self.res['discharged'] = 0
                self.res['failed'] = [{'property': s['id'] + '.grid', 'description': 'native grid aborted: ' + san.group(0)[:200], 'location': s['harness']}]
                self.res['counterexample'] = {'sanitizer': san.group(0)[:300]}
                self.res['counterexample_raw'] = {}
                self.res['native_done'] = (True, text.strip()[-1500:])
                return self.res
            return self.undecided('native grid produced no summary: ' + text.strip()[-300:])
        self.res['cbmc_properties'] = int(mo.group(1))
        self.res['discharged'] = int(mo.group(1)) - int(mo.group(2))
        self.res['samples'] = [{'grid_summary': mo.group(0)}]
        if p.returncode == 0 and int(mo.group(2)) == 0:
            self.res['status'] = 'PASS'
            return self.res
        self.res['status'] = 'FAIL'
        fails = [l for l in text.splitlines() if l.startswith('VF-GRID: FAIL')]
        if not fails:
            mo2 = re.search(r'ERROR: (?:Address|Leak)Sanitizer: [^\n]*(?:\n[^\n]*){0,6}', text)
            if mo2:
                fails = ['VF-GRID: FAIL ' + ' | '.join(x.strip() for x in mo2.group(0).splitlines() if x.strip())[:400]]
        self.res['failed'] = [{'property': s['id'] + '.grid', 'description': (fails or [text.strip()[-300:]])[0], 'location': s['harness']}]
        self.res['counterexample'] = {'grid_failures': fails[:5]}
        self.res['counterexample_raw'] = {}
        self.res['native_done'] = (True, '\n'.join(fails[:5]) or text.strip()[-500:])
        return self.res

    def run_script(self):
        """Supporting static fact computed by a script over /repo's current tree (not a proof obligation)."""
        s = self.s
        os.makedirs(self.dir, exist_ok=True)
        cmd = [sys.executable, os.path.join(VERIF, s['script']), REPO] + [os.path.join(VERIF, a) for a in s.get('script_args', [])]
        self.res['cmd'] = ' '.join(cmd)
        rc, out, err, dt = run_cmd(cmd, s.get('timeout', 600), 32)
        self.res['solver_s'] = round(dt, 2)
        self.res['backend'] = 'script'
        try:
            data = json.loads(out)
        except Exception:
            return self.undecided('script produced no JSON: ' + (err or out)[-300:])
        if rc == 2 or 'error' in data:
            return self.undecided('script error: ' + str(data.get('error'))[:300])
        self.res['cbmc_properties'] = data.get('functions_scanned', 0)
        self.res['discharged'] = data.get('functions_scanned', 0)
        self.res['samples'] = [{k: data[k] for k in data if k != 'new'}]
        if rc == 0:
            self.res['status'] = 'PASS'
            return self.res
        self.res['status'] = 'FAIL'
        self.res['failed'] = [{'property': s['id'] + '.new', 'description': json.dumps(x), 'location': s['script']} for x in data.get('new', [])][:10]
        self.res['counterexample'] = {'new': data.get('new', [])[:10]}
        self.res['counterexample_raw'] = {}
        self.res['native_done'] = (None, 'static fact changed: ' + json.dumps(data.get('new', [])[:5]))
        return self.res

    def run(self):
        s = self.s
        if s.get('kind') == 'native':
            return self.run_native()
        if s.get('kind') == 'static':
            return self.run_script()
        os.makedirs(self.dir, exist_ok=True)
        for u in s.get('units', []):
            if u in self.stage.inject_error:
                return self.undecided('extraction break: %s: %s' % (u, self.stage.inject_error[u]))
        a = os.path.join(self.dir, 'a.gb')
        b = os.path.join(self.dir, 'b.gb')
        rc, out, err, dt = run_cmd(self.cc_cmd(a), 300)
        if rc != 0:
            open(os.path.join(self.dir, 'cc.err'), 'w').write(out + err)
            return self.undecided('goto-cc failed: ' + (err.strip().splitlines() or ['?'])[-1][:300])
        if s.get('fp_restrict'):
            a2 = os.path.join(self.dir, 'a_fp.gb')
            err = self.restrict_fps(a, a2)
            if err:
                return self.undecided(err)
            a = a2
        gi = ['goto-instrument']
        use_dfcc = bool(s.get('enforce') or s.get('replace') or s.get('loops'))
        if use_dfcc:
            gi += ['--dfcc', s['entry']]
            for f in s.get('enforce', []):
                gi += ['--enforce-contract-rec' if s.get('recursive') else '--enforce-contract', f]
            for f in s.get('replace', []):
                gi += ['--replace-call-with-contract', f]
            if s.get('loops'):
                gi += ['--apply-loop-contracts']
                if s.get('no_unwind_transform'):
                    gi += ['--loop-contracts-no-unwind']
            gi += s.get('gi_extra', [])
            # cbmc 6.11 dfcc nondet-initialises every static-lifetime symbol, including function
            # symbols that it then drops as unused (crash "to_code"/"parameter identifier") and the
            # operation tables of the library.  Exclude: all function symbols; all statics defined in
            # /repo sources (they keep their initialisers; C19's scan shows nobody writes them).
            gi += self.static_excludes(a)
            gi += [a, b]
            rc, out, err, dt = run_cmd(gi, 600)
            open(os.path.join(self.dir, 'gi.log'), 'w').write(out + err)
            if rc != 0:
                return self.undecided('goto-instrument failed: ' + (err.strip().splitlines() or out.strip().splitlines() or ['?'])[-1][:300])
            gilog = out + err
        else:
            b = a
            gilog = ''
        cb = ['cbmc', '--json-ui'] + s.get('checks', DEFAULT_CHECKS) + s.get('cbmc', [])
        if s.get('unwind'):
            cb += ['--unwind', str(s['unwind']), '--unwinding-assertions']
        if not use_dfcc:
            cb += ['--drop-unused-functions']
        if not s.get('no_object_bits'):
            cb += ['--object-bits', str(s.get('object_bits', 12))]
        cb.append(b)
        self.res['cmd'] = ' '.join(gi[:-2] + ['&&'] if use_dfcc else []) + ' ' + ' '.join(cb[:-1])
        timeout = int(os.environ.get('VF_TIMEOUT', 0)) or s.get('timeout', 900) * (3 if self.tier == 'thorough' else 1)
        # back ends are tried in order; a back end that errors out or times out hands over to the next
        backends = s.get('backends', ['sat'])
        cb_base = cb
        results = None
        for bi, be in enumerate(backends):
            cb = cb_base[:-1] + BACKEND_FLAGS[be] + [b]
            rc, out, err, dt = run_cmd(cb, timeout, s.get('mem_gb', 12))
            self.res['solver_s'] = round(self.res['solver_s'] + dt, 2)
            self.res['backend'] = be
            open(os.path.join(self.dir, 'cbmc.%s.json' % be), 'w').write(out)
            open(os.path.join(self.dir, 'cbmc.json'), 'w').write(out)
            if rc == -999:
                why = 'cbmc timeout after %ds (%s)' % (timeout, be)
                results = None
                continue
            results, msgs, status = parse_cbmc_json(out)
            if results is None or status is None or any(r.get('status') == 'ERROR' for r in results):
                tail = (err.strip().splitlines() or out.strip().splitlines() or ['?'])[-1][:300]
                why = 'cbmc did not finish (rc=%d, %s): %s' % (rc, be, tail)
                results = None
                continue
            break
        if results is None:
            return self.undecided(why)
        alltext = '\n'.join(msgs) + gilog
        # --- vacuity / soundness guards --------------------------------------
        for m in msgs:
            if 'ignoring' in m and ('forall' in m or 'exists' in m or 'quantif' in m):
                return self.undecided('quantifier ignored by back end: ' + m[:200])
        nobody = set(re.findall(r'no body for (?:callee|function) ([A-Za-z0-9_$:]+)', alltext))
        nobody = {f for f in nobody if not f.startswith('nondet_vf_') and f not in s.get('allow_no_body', [])}
        if nobody:
            return self.undecided('unintended havoc: no body for ' + ','.join(sorted(nobody)))
        nb = sorted({r.get('property', '').split('.no-body.')[1] for r in results if '.no-body.' in r.get('property', '') and r.get('status') != 'SUCCESS'}
                    - set(s.get('allow_no_body', [])))
        if nb:
            return self.undecided('unintended havoc: no body for ' + ','.join(nb))
        allowed_nb = set(s.get('allow_no_body', []))
        results = [r for r in results if not ('.no-body.' in r.get('property', '') and r['property'].split('.no-body.')[1] in allowed_nb)]
        canary = [r for r in results if CANARY in r.get('description', '') and r.get('property', '').startswith(s['entry'] + '.')]
        others = [r for r in results if CANARY not in r.get('description', '')]
        self.res['cbmc_properties'] = len(others)
        self.res['discharged'] = sum(1 for r in others if r['status'] == 'SUCCESS')
        if not s.get('no_canary'):
            if not canary:
                return self.undecided('vacuity: canary missing from harness')
            if any(r['status'] != 'FAILURE' for r in canary):
                return self.undecided('vacuity: canary unreachable (contradictory requires/assumptions)')
        if len(others) < s.get('min_props', 1):
            return self.undecided('vacuity: only %d CBMC properties (expected >= %d)' % (len(others), s.get('min_props', 1)))
        if s.get('loops'):
            descs = ' '.join(r.get('property', '') + ' ' + r.get('description', '') for r in others)
            need = s.get('min_loop_contracts', 1)
            nb = len([r for r in others if 'loop_invariant_base' in r.get('property', '') or 'loop invariant before entry' in r.get('description', '')])
            ns = len([r for r in others if 'loop_invariant_step' in r.get('property', '') or 'invariant is preserved' in r.get('description', '')])
            if nb < need or ns < need:
                return self.undecided('vacuity: loop contract silently dropped (base=%d step=%d need=%d)' % (nb, ns, need))
        for pat in s.get('must_have', []):
            if not any(re.search(pat, r.get('property', '') + ' ' + r.get('description', '')) for r in others):
                return self.undecided('vacuity: expected CBMC property matching %r not generated' % pat)
        xf = s.get('expected_fail', [])
        if xf:
            # named CBMC properties that are expected to fail by construction (stated in `trusted`); they must exist and fail
            exp = [r for r in others if any(re.search(p_, r.get('property', '')) for p_ in xf)]
            if len(exp) < len(xf) or any(r['status'] != 'FAILURE' for r in exp):
                return self.undecided('expected-to-fail property missing or not failing: %s' % xf)
            others = [r for r in others if r not in exp]
            self.res['cbmc_properties'] = len(others)
            self.res['discharged'] = sum(1 for r in others if r['status'] == 'SUCCESS')
        uw = [r for r in others if r['status'] == 'FAILURE' and ('unwind' in r.get('property', '') or 'recursion' in r.get('property', ''))
              and not any(re.search(p_, r.get('property', '')) for p_ in s.get('expected_fail', []))]
        undecided_props = [r for r in others if r['status'] not in ('SUCCESS', 'FAILURE')]
        if uw and undecided_props and not [r for r in others if r['status'] == 'FAILURE' and r not in uw]:
            hang = self.hang_check(cb, b, uw[0], timeout)
            if hang:
                return hang
            return self.undecided('unwinding bound too small: %s (cbmc leaves %d dependent properties UNKNOWN)' % (', '.join(r['property'] for r in uw[:4]), len(undecided_props)))
        definite = [r for r in others if r['status'] == 'FAILURE' and 'unwind' not in r.get('property', '') and 'recursion' not in r.get('property', '')]
        if undecided_props and not definite:
            return self.undecided('solver left %d properties undecided (status %s), e.g. %s' % (len(undecided_props), undecided_props[0]['status'], undecided_props[0].get('property')))
        # a definite FAILURE stands even if CBMC gave up on other properties afterwards (they stay out of the count)
        bad = [r for r in others if r['status'] == 'FAILURE'] if definite else [r for r in others if r['status'] != 'SUCCESS']
        self.res['samples'] = [{'property': r.get('property'), 'description': r.get('description'), 'status': r['status']}
                               for r in (others[:2] + [r for r in others if 'postcondition' in r.get('property', '') or 'assertion' in r.get('property', '')][:4])]
        if not bad:
            self.res['status'] = 'PASS'
            return self.res
        self.res['status'] = 'FAIL'
        self.res['failed'] = [{'property': r.get('property'), 'description': r.get('description'),
                               'location': '%s:%s' % (r.get('sourceLocation', {}).get('file', '?'), r.get('sourceLocation', {}).get('line', '?'))}
                              for r in bad]
        unwinding = [r for r in bad if 'unwind' in r.get('property', '') or 'unwinding assertion' in r.get('description', '')]
        if unwinding and len(unwinding) == len(bad):
            hang = self.hang_check(cb, b, unwinding[0], timeout)
            if hang:
                return hang
            return self.undecided('unwinding assertion failed (bound %s too small): %s' % (s.get('unwind'), unwinding[0].get('property')))
        # --- counterexample ---------------------------------------------------
        first = bad[0]
        inputs = self.trace_inputs(cb, b, first['property'], timeout, 'cbmc.trace.json')
        self.res['counterexample_from'] = 'trace of the failed obligation'
        if use_dfcc and s.get('loops'):
            # a failed loop-invariant step / abstracted loop gives a state, not an execution:
            # search a real execution by unwinding the loops instead of abstracting them
            alt = self.bounded_cex(a, cb, timeout)
            if alt:
                inputs = alt
                self.res['counterexample_from'] = 'bounded search (loops unwound %d times instead of abstracted)' % s.get('cex_unwind', 10)
        self.res['counterexample_raw'] = inputs
        self.res['counterexample'] = pretty_inputs(inputs)
        return self.res

    def hang_check(self, cb, b, r, timeout):
        """A failed unwinding assertion is either a bound that is too small (undecided) or a loop that does not end.
        Take the input of the trace that exceeds the bound and run the real code on it natively: only if that run
        does not terminate is it reported as a violation (C04/C07 termination), with the input as the replay."""
        s = self.s
        if s.get('kind') not in ('bounded', 'width') or not s.get('harness'):
            return None
        # unwinding assertions are generated during symbolic execution, so --property cannot name them: ask for all traces
        cb2 = [c for c in cb if c != '--json-ui'][:-1] + ['--json-ui', '--trace', b]
        rc2, out2, err2, dt2 = run_cmd(cb2, min(timeout, 900), s.get('mem_gb', 12))
        open(os.path.join(self.dir, 'cbmc.unwind-trace.json'), 'w').write(out2)
        r2, _, _ = parse_cbmc_json(out2)
        inputs = {}
        for x in (r2 or []):
            if 'trace' in x and x.get('property') == r.get('property'):
                inputs = extract_inputs(x['trace'], s['entry'], os.path.basename(s['harness']))
        if not inputs:
            return None
        ok, text = self.native_replay(inputs, os.path.join(self.dir, 'native'), hang_timeout=20)
        if ok is True and 'does not terminate' in text:
            self.res['status'] = 'FAIL'
            self.res['failed'] = [{'property': r.get('property'), 'description': 'loop does not terminate: ' + r.get('description', ''),
                                   'location': '%s:%s' % (r.get('sourceLocation', {}).get('file', '?'), r.get('sourceLocation', {}).get('line', '?'))}]
            self.res['counterexample_from'] = 'trace of the failed unwinding assertion; the real code does not terminate on it'
            self.res['counterexample_raw'] = inputs
            self.res['counterexample'] = pretty_inputs(inputs)
            self.res['native_done'] = (True, text)
            return self.res
        return None

    def trace_inputs(self, cb, binary, prop, timeout, outname):
        s = self.s
        cb2 = [c for c in cb if c != '--json-ui'][:-1] + ['--json-ui', '--trace']
        if prop:
            cb2 += ['--property', prop]
        else:
            cb2 += ['--stop-on-fail']
        cb2.append(binary)
        rc2, out2, err2, dt2 = run_cmd(cb2, timeout, s.get('mem_gb', 12))
        open(os.path.join(self.dir, outname), 'w').write(out2)
        r2, _, _ = parse_cbmc_json(out2)
        if r2:
            for r in r2:
                if 'trace' in r and (prop is None or r.get('property') == prop) and CANARY not in r.get('description', ''):
                    return extract_inputs(r['trace'], s['entry'], os.path.basename(s['harness']))
        return {}

    def bounded_cex(self, a, cb, timeout):
        s = self.s
        c = os.path.join(self.dir, 'c.gb')
        gi = ['goto-instrument', '--dfcc', s['entry']]
        for f in s.get('enforce', []):
            gi += ['--enforce-contract', f]
        for f in s.get('replace', []):
            gi += ['--replace-call-with-contract', f]
        gi += [a, c]
        rc, out, err, dt = run_cmd(gi, 600)
        if rc != 0:
            return {}
        cbx = [x for x in cb[:-1] if x not in ('--unwinding-assertions',)]
        cbx += ['--unwind', str(s.get('cex_unwind', 10)), '-DVF_NO_CANARY', c]
        cbx = [x for x in cbx if x != '-DVF_NO_CANARY']
        # list failing properties first (canary excluded), then fetch a trace for one of them
        rc, out, err, dt = run_cmd(cbx, timeout, s.get('mem_gb', 12))
        results, _, status = parse_cbmc_json(out)
        if not results:
            return {}
        bad = [r for r in results if r['status'] == 'FAILURE' and CANARY not in r.get('description', '')
               and 'unwind' not in r.get('property', '')]
        if not bad:
            return {}
        return self.trace_inputs(cbx, c, bad[0]['property'], timeout, 'cbmc.cex.json')

    # --- native replay ------------------------------------------------------
    def native_replay(self, inputs, workdir, hang_timeout=60):
        s = self.s
        if 'native_done' in self.res:
            return self.res['native_done']
        if not s.get('native', True) or not inputs:
            return None, 'no usable input in the trace' if not inputs else 'harness has no native mode'
        os.makedirs(workdir, exist_ok=True)
        hdr = os.path.join(workdir, 'vf_replay_inputs.txt')
        write_replay_inputs(inputs, hdr)
        exe = os.path.join(workdir, 'replay')
        cmd = ['gcc', '-std=gnu99', '-O0', '-g', '-w', '-DVF_NATIVE', '-D' + GUARD, '-fsanitize=address,undefined',
               '-fno-sanitize-recover=undefined', '-I', os.path.join(VERIF, 'include'), '-I', VERIF]
        for d in s.get('incdirs', ['skeletons']):
            cmd += ['-I', os.path.join(REPO, d)]
        cmd += ['-I', REPO, '-DVF_ENTRY=' + s['entry']]
        for d in self.defines + s.get('defines', []):
            cmd.append('-D' + d)
        cmd.append(os.path.join(VERIF, s['harness']))
        for u in s.get('native_units', []):
            cmd.append(os.path.join(REPO, u))
        lib = native_lib(self.stage.root)
        if lib:
            cmd.append(lib)
        cmd += ['-o', exe, '-lm']
        rc, out, err, dt = run_cmd(cmd, 300, 64)
        if rc != 0:
            return None, 'native harness does not build: ' + (err.strip().splitlines() or ['?'])[-1][:300]
        env = dict(os.environ, VF_REPLAY_INPUTS=hdr, ASAN_OPTIONS='detect_leaks=1:abort_on_error=0', UBSAN_OPTIONS='print_stacktrace=1')
        try:
            p = subprocess.run([exe], stdout=subprocess.PIPE, stderr=subprocess.STDOUT, timeout=hang_timeout, env=env)
            text = p.stdout.decode('utf-8', 'replace')
            rc = p.returncode
        except subprocess.TimeoutExpired:
            return True, 'native run does not terminate within %d s (input reproduces a hang)' % hang_timeout
        if rc == 77:
            return None, 'native run: input outside the harness assumptions: ' + text.strip()[-300:]
        if rc != 0:
            return True, text.strip()[-1500:]
        return False, text.strip()[-500:]


# ----------------------------------------------------------------------------
# property-level check
# ----------------------------------------------------------------------------
def select(reg, prop, tier, only=None):
    sel = []
    for o in reg:
        if only is not None:
            if o['id'] in only:
                sel.append(o)
            continue
        if prop not in o['props']:
            continue
        if o.get('tier', 'quick') == 'thorough' and tier != 'thorough':
            continue
        if o.get('tier') == 'experimental':
            continue
        sel.append(o)
    return sel


def expand_findings(spec, findings):
    """Return list of (defines, tag, finding) runs for a registry entry."""
    mine = [f for f in findings if spec['id'] in f.get('obligations', []) and f.get('status') == 'open']
    if not mine:
        return [([], '', None)]
    runs = [(['%s=1' % f['macro'] for f in mine], 'excl', None)]
    for f in mine:
        runs.append((['%s=2' % f['macro']] + ['%s=1' % g['macro'] for g in mine if g is not f], 'only-' + f['id'], f))
    return runs


def do_check(prop, tier, only, keep, jobs, write_evidence=True):
    t0 = time.time()
    seed = int(os.environ.get('VERIF_SEED', '0') or 0)
    reg = load_registry()
    findings = load_findings()
    sel = select(reg, prop, tier, only)
    if not sel:
        log('UNDECIDED: no obligations registered for', prop)
        return 2
    root = os.environ.get('VERIF_SCRATCH') or ('/var/tmp/vf.%d' % os.getpid())
    if os.path.exists(root):
        shutil.rmtree(root)
    stage = Stage(root)
    rc = 2
    try:
        stage.build()
        tasks = []
        for spec in sel:
            for defines, tag, finding in expand_findings(spec, findings):
                tasks.append((Obl(spec, stage, tier, defines, tag), finding))
        heavy = threading.Semaphore(1)      # obligations that may need more than the default memory cap run one at a time
        def work(t):
            try:
                if t[0].s.get('mem_gb', 12) > 12:
                    with heavy:
                        return t[0].run()
                return t[0].run()
            except Exception as e:
                traceback.print_exc()
                return t[0].undecided('driver exception: %r' % e)
        with ThreadPoolExecutor(max_workers=jobs) as ex:
            results = list(ex.map(work, tasks))
        violations, undecided, known = [], [], []
        os.makedirs(os.path.join(VERIF, 'replays'), exist_ok=True)
        for (obl, finding), res in zip(tasks, results):
            line = '%-44s %-9s props=%d/%d %.1fs %s' % (res['id'], res['status'], res['discharged'], res['cbmc_properties'], res['solver_s'], res['why'])
            log(line)
            if res['status'] == 'UNDECIDED':
                if finding is not None:
                    # the region-only run is informational
                    continue
                undecided.append(res)
            elif res['status'] == 'FAIL':
                ok, text = obl.native_replay(res.get('counterexample_raw', {}), os.path.join(obl.dir, 'native'))
                res['native_replay'] = {'reproduced': ok, 'output': text}
                if finding is not None:
                    log('KNOWN-FINDING: property=%s %s [%s; obligation %s: %s]' % (
                        finding['property'], finding['what'], finding['id'], res['obligation'],
                        res['failed'][0]['property']))
                    known.append({'finding': finding['id'], 'obligation': res['obligation'],
                                  'failed': res['failed'][:3], 'counterexample': res.get('counterexample'),
                                  'native_replay': res['native_replay']})
                    res['status'] = 'KNOWN'
                    continue
                rp = os.path.join(VERIF, 'replays', '%s-%s.json' % (prop, res['id'].replace('/', '_').replace('@', '_')))
                json.dump({'property': prop, 'obligation': res['obligation'], 'run': res['id'],
                           'failed_cbmc_properties': res['failed'], 'inputs': res.get('counterexample'),
                           'inputs_raw': res.get('counterexample_raw'),
                           'native_replay': res['native_replay'], 'command': res['cmd'],
                           'harness': obl.s['harness'], 'defines': obl.defines,
                           'verifier_output': (open(os.path.join(obl.dir, 'cbmc.json')).read()[-20000:] if os.path.exists(os.path.join(obl.dir, 'cbmc.json')) else json.dumps(res.get('counterexample'))[:20000])},
                          open(rp, 'w'), indent=1)
                violations.append((res, rp, ok))
        for res, rp, ok in violations:
            log('  failed obligation %s: %s' % (res['obligation'], '; '.join('%s (%s) at %s' % (f['property'], f['description'], f['location']) for f in res['failed'][:4])))
            if res.get('counterexample'):
                log('  counterexample: %s' % json.dumps(res['counterexample']))
            log('  native replay: %s' % (res['native_replay']['output'] or '').replace('\n', '\n    ')[:1500])
            log('VIOLATION property=%s replay=%s%s' % (prop, rp, '' if ok else ' no-failing-input-found'))
        for res in undecided:
            log('UNDECIDED property=%s obligation=%s: %s' % (prop, res['id'], res['why']))
        rc = 1 if violations else (2 if undecided else 0)
        if write_evidence:
            write_ev(prop, tier, seed, stage, sel, tasks, results, known, violations, undecided, time.time() - t0)
        log('%s: %d obligations run, %d pass, %d violation(s), %d undecided, %d known finding(s); %.0fs'
            % (prop, len(results), sum(1 for r in results if r['status'] == 'PASS'), len(violations), len(undecided), len(known), time.time() - t0))
    finally:
        if not keep:
            shutil.rmtree(root, ignore_errors=True)
        else:
            log('scratch kept at', root)
    return rc


def scan_assumptions(used=None):
    """Mechanical scan of the /verif files used by this run for assumptions and trusted stubs."""
    found = []
    for d in ('harness', 'stubs', 'contracts', 'spec', 'include'):
        dd = os.path.join(VERIF, d)
        if not os.path.isdir(dd):
            continue
        for f in sorted(os.listdir(dd)):
            p = os.path.join(dd, f)
            if used is not None and d in ('harness', 'stubs', 'contracts') and (d + '/' + f) not in used:
                continue
            try:
                txt = open(p).read()
            except Exception:
                continue
            n = len(re.findall(r'__CPROVER_assume\s*\(', txt))
            if n and d != 'include':
                found.append('%s/%s: %d __CPROVER_assume (harness input preconditions)' % (d, f, n))
            for mo in re.finditer(r'VF_TRUSTED\(([^)]*)\)', txt):
                found.append('%s/%s: trusted: %s' % (d, f, mo.group(1)))
    return found


def write_ev(prop, tier, seed, stage, sel, tasks, results, known, violations, undecided, wall):
    reg = load_registry()
    enforced = set()
    for o in reg:
        for f in o.get('enforce', []):
            enforced.add(f)
        for f in o.get('proves', []):
            enforced.add(f)
    proof = [r for (t, f), r in zip(tasks, results) if t.s.get('kind', 'enforce') in ('enforce', 'lemma', 'width') and f is None]
    bounded = [r for (t, f), r in zip(tasks, results) if t.s.get('kind') in ('bounded', 'instance', 'static', 'native') and f is None]
    obligations = sum(r['cbmc_properties'] for r in proof)
    discharged = sum(r['discharged'] for r in proof)
    fns = sorted({f for r in proof for f in r['functions']})
    replaced_unproved = sorted({f for t, _ in tasks for f in t.s.get('replace', []) if f not in enforced})
    trusted = ['cbmc 6.11.0 (goto-cc, goto-instrument --dfcc, SAT back end minisat unless stated)',
               'platform model: x86_64 LP64 little-endian (unless obligation says big_endian)',
               'machine arithmetic bit-precise; floating point = CBMC IEEE-754 model']
    for t, _ in tasks:
        for x in t.s.get('trusted', []):
            if x not in trusted:
                trusted.append(x)
    used = set()
    for t, _ in tasks:
        used.add(t.s['harness'])
        used.update(t.s.get('stubs', []))
        used.update(t.s.get('include', []))
    assumptions = scan_assumptions(used)
    # frames proved by dfcc: the assigns clauses of the enforced functions
    frames = {}
    for t, _ in tasks:
        for fn in t.s.get('enforce', []):
            for h in t.s.get('include', []):
                try:
                    txt = open(os.path.join(VERIF, h)).read()
                except OSError:
                    continue
                frames.setdefault(fn, [])
                for mo in re.finditer(r'[ \*]' + re.escape(fn) + r'\s*\(', txt):
                    k, depth = mo.end() - 1, 0
                    while k < len(txt):
                        depth += txt[k] == '('
                        depth -= txt[k] == ')'
                        if depth == 0 and txt[k] == ';':
                            break
                        if depth == 0 and txt[k] == '{':
                            k = -1
                            break
                        k += 1
                    if k <= 0:
                        continue
                    decl = txt[mo.start():k]
                    for m2 in re.finditer(r'__CPROVER_(assigns|frees)\s*\(', decl):
                        e, d2 = m2.end() - 1, 0
                        while e < len(decl):
                            d2 += decl[e] == '('
                            d2 -= decl[e] == ')'
                            e += 1
                            if d2 == 0:
                                break
                        frames[fn].append(' '.join(decl[m2.start():e].split()))
    for f in replaced_unproved:
        assumptions.append('contract of %s is used at call sites (replace-call-with-contract) but not enforced by any obligation' % f)
    unv = []
    for t, _ in tasks:
        for x in t.s.get('unverified', []):
            if x not in unv:
                unv.append(x)
    import obligations as O
    for x in getattr(O, 'UNVERIFIED', {}).get(prop, []):
        if x not in unv:
            unv.append(x)
    samples = []
    for r in proof[:6] + bounded[:2]:
        samples.append({'obligation': r['id'], 'kind': r['kind'], 'functions': r['functions'],
                        'cbmc_properties': r['cbmc_properties'], 'status': r['status'],
                        'examples': r.get('samples', [])[:3]})
    ev = {
        'property_id': prop, 'tier': tier, 'seed': seed,
        'level': 'proof' if obligations > 0 else 'other',
        'coverage': {
            'obligations': obligations, 'discharged': discharged,
            'checker_cmd': 'python3 tools/vf.py check %s --tier %s  (per obligation: goto-cc; goto-instrument --dfcc <entry> --enforce-contract <f> [--replace-call-with-contract <g>]* [--apply-loop-contracts]; cbmc %s)' % (prop, tier, ' '.join(DEFAULT_CHECKS)),
            'trusted_base': trusted,
            'explanation': 'obligations/discharged count CBMC properties (contract postconditions, assigns/frame checks, loop-invariant base/step/decreases, pointer/bounds/overflow/shift checks, library assert()s, harness assertions) generated from /repo\'s current source in proof-kind obligations only (enforce = function body against its contract for all inputs; lemma = consequence of contracts only; width = loop bounded by an operand width with unwinding assertions). Bounded stand-ins are listed separately and not counted.',
            'functions_under_contract': fns,
            'proof_obligations': [{'id': r['id'], 'kind': r['kind'], 'functions': r['functions'], 'status': r['status'],
                                   'cbmc_properties': r['cbmc_properties'], 'discharged': r['discharged'],
                                   'solver_s': r['solver_s'], 'backend': r['backend'], 'replaced_callees': r['replaced'],
                                   'bound': r['bound'], 'why': r['why']} for r in proof],
            'bounded_standins': [{'id': r['id'], 'kind': r['kind'], 'functions': r['functions'], 'status': r['status'],
                                  'bound': r['bound'], 'cbmc_properties': r['cbmc_properties'], 'discharged': r['discharged'],
                                  'solver_s': r['solver_s'], 'why': r['why']} for r in bounded],
            'unverified': unv,
            'frames_proved': frames,
            'known_findings': known,
            'loop_contracts_injected': stage.inject_report,
            'solver_s': round(sum(r['solver_s'] for r in results), 1),
            'samples': samples,
            'undecided': [{'id': r['id'], 'why': r['why']} for r in undecided],
        },
        'assumptions': assumptions,
        'wall_s': round(wall, 1),
        'violations': len(violations),
    }
    os.makedirs(os.path.join(VERIF, 'evidence'), exist_ok=True)
    json.dump(ev, open(os.path.join(VERIF, 'evidence', prop + '.json'), 'w'), indent=1)


def main():
    ap = argparse.ArgumentParser()
    ap.add_argument('cmd', choices=['check', 'run', 'list', 'replay'])
    ap.add_argument('arg', nargs='?')
    ap.add_argument('--tier', default=os.environ.get('VERIF_TIER', 'quick'))
    ap.add_argument('--only')
    ap.add_argument('--keep', action='store_true')
    ap.add_argument('--jobs', type=int, default=int(os.environ.get('VF_JOBS', '0')) or min(16, os.cpu_count() or 4))
    a = ap.parse_args()
    if a.cmd == 'list':
        for o in load_registry():
            if a.arg and a.arg not in o['props']:
                continue
            print('%-44s %-8s %-8s %s' % (o['id'], o.get('kind', 'enforce'), o.get('tier', 'quick'), ','.join(o['props'])))
        return 0
    if a.cmd == 'check':
        only = set(a.only.split(',')) if a.only else None
        return do_check(a.arg, a.tier, only, a.keep, a.jobs, write_evidence=(only is None))
    if a.cmd == 'run':
        only = set(a.arg.split(','))
        return do_check('DEV', 'thorough', only, a.keep, a.jobs, write_evidence=False)
    if a.cmd == 'replay':
        rp = json.load(open(a.arg))
        reg = {o['id']: o for o in load_registry()}
        spec = reg[rp['obligation']]
        root = '/var/tmp/vf.replay.%d' % os.getpid()
        try:
            o = Obl(spec, Stage(root), 'quick', rp.get('defines', []))
            ok, text = o.native_replay(rp.get('inputs_raw', {}), os.path.join(root, 'native'))
            print(text)
            print('reproduced' if ok else 'not reproduced')
            return 1 if ok else 0
        finally:
            shutil.rmtree(root, ignore_errors=True)


if __name__ == '__main__':
    sys.exit(main())
