#!/bin/bash
# usage: tools/seed_check.sh <seed id, e.g. C05_m2> <obligation[,obligation...]>
# Applies seeded/<seed>/patch.diff to a scratch copy of /repo (never to /repo itself) and runs the named obligations
# against that copy (VF_REPO).  The scratch copy is removed afterwards.  Exit status of the driver: 1 = violation reported.
seed=$1; obl=$2
[ -f "/verif/seeded/$seed/patch.diff" ] || { echo "no such seed: $seed"; exit 2; }
work=/var/tmp/seedrepo_$seed.$$
mkdir -p "$work" && rsync -a --exclude .git --exclude '*.o' --exclude '*.lo' --exclude '.libs' /repo/ "$work"/ || exit 2
( cd "$work" && patch -p1 -s < "/verif/seeded/$seed/patch.diff" ) || { echo "patch does not apply to the current tree"; rm -rf "$work"; exit 2; }
cd /verif && VF_REPO="$work" VERIF_SCRATCH=/var/tmp/vfseed_$seed.$$ python3 tools/vf.py run "$obl" --tier experimental; rc=$?
rm -rf "$work" /var/tmp/vfseed_$seed.$$
exit $rc
