#!/usr/bin/env python3
"""Rewrites the findings table of DESIGN.md (between the FINDINGS-TABLE markers) from known_findings.json."""
import json, re
V = '/verif'
d = json.load(open(V + '/known_findings.json'))
rows = ['| id | property | status | obligation(s) | what |', '|---|---|---|---|---|']
for f in d['findings']:
    st = f['status'] + (' ' + f['commit'] if f.get('commit') else '')
    rows.append('| %s | %s | %s | %s | %s |' % (f['id'], f['property'], st, ', '.join(f.get('obligations', [])), f['what'].replace('|', '/')))
s = open(V + '/DESIGN.md').read()
a, b = '<!-- FINDINGS-TABLE-BEGIN -->', '<!-- FINDINGS-TABLE-END -->'
s = s[:s.index(a) + len(a)] + '\n' + '\n'.join(rows) + '\n' + s[s.index(b):]
open(V + '/DESIGN.md', 'w').write(s)
print(len(rows) - 2, 'findings')
