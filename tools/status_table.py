#!/usr/bin/env python3
"""Rewrites the as-built status table of DESIGN.md (between the STATUS-TABLE markers) from obligations.py and MANIFEST.json."""
import json, sys
sys.path.insert(0, '/verif')
import obligations as ob
V = '/verif'
man = json.load(open(V + '/MANIFEST.json'))
claimed = {c['property_id'] for c in man['checks']}
na = {x['property_id'] if isinstance(x, dict) else x: (x.get('reason', '') if isinstance(x, dict) else '') for x in man.get('not_applicable', [])}
rows = ['| id | status | contract proofs (dfcc-enforced) | complete by width / loop-free | bounded stand-ins | native / static facts | thorough-only | experimental (not run) |', '|---|---|---|---|---|---|---|---|']
for i in range(1, 21):
    p = 'C%02d' % i
    os_ = [o for o in ob.OBLIGATIONS if p in o['props']]
    def n(pred): return sum(1 for o in os_ if pred(o))
    run = lambda o: o.get('tier', 'quick') in ('quick', 'thorough')
    enf = n(lambda o: run(o) and o.get('enforce'))
    wid = n(lambda o: run(o) and o['kind'] == 'width' and not o.get('enforce'))
    bnd = n(lambda o: run(o) and o['kind'] == 'bounded')
    nat = n(lambda o: run(o) and o['kind'] in ('native', 'static'))
    tho = n(lambda o: o.get('tier') == 'thorough')
    exp = n(lambda o: o.get('tier') == 'experimental')
    st = 'claimed' if p in claimed else ('not applicable' if p in na else 'not claimed')
    rows.append('| %s | %s | %d | %d | %d | %d | %d | %d |' % (p, st, enf, wid, bnd, nat, tho, exp))
s = open(V + '/DESIGN.md').read()
a, b = '<!-- STATUS-TABLE-BEGIN -->', '<!-- STATUS-TABLE-END -->'
s = s[:s.index(a) + len(a)] + '\n' + '\n'.join(rows) + '\n' + s[s.index(b):]
open(V + '/DESIGN.md', 'w').write(s)
print('\n'.join(rows))
