#!/usr/bin/env python3
"""
Loop-contract injector.

Loop contracts cannot be attached from outside with this CBMC build
(goto-instrument --loop-contracts-file is broken), and /repo must not carry
them.  So on every run the driver copies the translation unit out of /repo and
this module inserts the __CPROVER_* loop clauses kept in /verif/loops/*.loops
at the loops they belong to.

 * entries are keyed by (function name, loop ordinal): the n-th for/while/do
   keyword (by position) inside the body of that function definition;
 * must-fire: every entry must match exactly one loop, else InjectError
   (the driver turns that into exit 2 "extraction break", never a violation);
 * self-check: removing the inserted text gives back the original bytes, so
   injection only ADDS clauses that have no run-time meaning.

File format (loops/<unit path with / -> __>.loops):
    # comment
    @@ function_name #ordinal
    __CPROVER_assigns(...)
    __CPROVER_loop_invariant(...)
    __CPROVER_decreases(...)
"""
import re


class InjectError(Exception):
    pass


def mask(src):
    """Replace comments, string and char literals by spaces (same length)."""
    out = list(src)
    i, n = 0, len(src)
    while i < n:
        c = src[i]
        if c == '/' and i + 1 < n and src[i + 1] == '*':
            j = src.find('*/', i + 2)
            j = n if j < 0 else j + 2
            for k in range(i, j):
                if out[k] != '\n':
                    out[k] = ' '
            i = j
        elif c == '/' and i + 1 < n and src[i + 1] == '/':
            j = src.find('\n', i)
            j = n if j < 0 else j
            for k in range(i, j):
                out[k] = ' '
            i = j
        elif c == '"' or c == "'":
            q = c
            j = i + 1
            while j < n and src[j] != q:
                if src[j] == '\\':
                    j += 1
                j += 1
            for k in range(i + 1, min(j, n)):
                if out[k] != '\n':
                    out[k] = ' '
            i = j + 1
        else:
            i += 1
    return ''.join(out)


def match_close(m, i, open_c, close_c):
    """m[i] == open_c; return index of the matching close_c."""
    depth = 0
    n = len(m)
    while i < n:
        if m[i] == open_c:
            depth += 1
        elif m[i] == close_c:
            depth -= 1
            if depth == 0:
                return i
        i += 1
    raise InjectError("unbalanced %s%s" % (open_c, close_c))


def find_function_body(m, name):
    """Return (start, end) offsets of the '{' ... '}' of the definition of name."""
    found = []
    for mo in re.finditer(r'(?<![A-Za-z0-9_])' + re.escape(name) + r'\s*\(', m):
        # must be at brace depth 0
        depth = m.count('{', 0, mo.start()) - m.count('}', 0, mo.start())
        if depth != 0:
            continue
        # not inside a preprocessor line
        ls = m.rfind('\n', 0, mo.start()) + 1
        if m[ls:mo.start()].lstrip().startswith('#'):
            continue
        close = match_close(m, mo.end() - 1, '(', ')')
        j = close + 1
        while j < len(m) and m[j] in ' \t\r\n':
            j += 1
        if j < len(m) and m[j] == '{':
            found.append((j, match_close(m, j, '{', '}')))
    if len(found) != 1:
        raise InjectError("function %s: %d definitions found" % (name, len(found)))
    return found[0]


def loops_in(m, start, end):
    """List of (keyword_pos, insert_pos) for each loop in m[start:end], by position."""
    res = []
    do_tails = set()
    for mo in re.finditer(r'(?<![A-Za-z0-9_])(for|while|do)(?![A-Za-z0-9_])', m[start:end]):
        pos = start + mo.start()
        kw = mo.group(1)
        if kw == 'do':
            j = pos + 2
            while m[j] in ' \t\r\n':
                j += 1
            if m[j] != '{':
                raise InjectError("do-loop without a block body at offset %d" % pos)
            close = match_close(m, j, '{', '}')
            k = close + 1
            while m[k] in ' \t\r\n':
                k += 1
            if not m.startswith('while', k):
                raise InjectError("do-loop without while at offset %d" % pos)
            do_tails.add(k)
            p = m.index('(', k)
            res.append((pos, match_close(m, p, '(', ')') + 1))
        elif kw == 'while' and pos in do_tails:
            continue
        else:
            j = pos + len(kw)
            while m[j] in ' \t\r\n':
                j += 1
            if m[j] != '(':
                raise InjectError("%s without '(' at offset %d" % (kw, pos))
            res.append((pos, match_close(m, j, '(', ')') + 1))
    res.sort()
    return res


def parse_loops_file(text):
    entries = []
    cur = None
    for line in text.splitlines():
        if line.startswith('#'):
            continue
        mo = re.match(r'@@\s*([A-Za-z_][A-Za-z0-9_]*)\s*#(\d+)\s*$', line)
        if mo:
            cur = {'function': mo.group(1), 'ordinal': int(mo.group(2)), 'text': []}
            entries.append(cur)
        elif line.startswith('@@'):
            raise InjectError("bad entry header: " + line)
        elif cur is not None:
            if line.strip():
                cur['text'].append(line.strip())
    for e in entries:
        e['text'] = ' '.join(e['text'])
        if '__CPROVER_' not in e['text']:
            raise InjectError("empty loop contract for %s#%d" % (e['function'], e['ordinal']))
        for tok in re.findall(r'[A-Za-z_][A-Za-z0-9_]*\s*\(', e['text']):
            pass
    return entries


def inject(src, entries):
    """Return (new_source, report).  Raises InjectError when an entry does not fire."""
    m = mask(src)
    ins = []
    report = []
    for e in entries:
        bs, be = find_function_body(m, e['function'])
        ls = loops_in(m, bs, be)
        if not (1 <= e['ordinal'] <= len(ls)):
            raise InjectError("%s: loop #%d not found (%d loops in body)"
                              % (e['function'], e['ordinal'], len(ls)))
        kwpos, ipos = ls[e['ordinal'] - 1]
        line = src.count('\n', 0, kwpos) + 1
        ins.append((ipos, ' ' + e['text'] + ' '))
        report.append({'function': e['function'], 'ordinal': e['ordinal'], 'line': line,
                       'loops_in_function': len(ls)})
    if len(set(p for p, _ in ins)) != len(ins):
        raise InjectError("two entries target the same loop")
    ins.sort()
    out = []
    last = 0
    for pos, text in ins:
        out.append(src[last:pos])
        out.append(text)
        last = pos
    out.append(src[last:])
    new = ''.join(out)
    # self-check: removing exactly the inserted texts restores the original bytes
    chk = new
    for pos, text in sorted(ins, reverse=True):
        # position in new text = pos + total length of earlier insertions
        off = pos + sum(len(t) for p, t in ins if p < pos)
        if chk[off:off + len(text)] != text:
            raise InjectError("self-check failed (offset)")
        chk = chk[:off] + chk[off + len(text):]
    if chk != src:
        raise InjectError("self-check failed: injection is not add-only")
    return new, report


if __name__ == '__main__':
    import sys
    src = open(sys.argv[1]).read()
    entries = parse_loops_file(open(sys.argv[2]).read())
    new, rep = inject(src, entries)
    sys.stdout.write(new)
    sys.stderr.write(repr(rep) + '\n')
