#!/bin/bash
# usage: confirm_seed.sh <worktree> <seed dir (patch.diff, demo.c, run.txt)> <out dir>
# Confirms in the scratch worktree: demo passes on HEAD, patch applies and compiles, demo fails with the patch,
# the repository's test suite (make check) still passes with the patch (82 PASS, only check-parsing.sh failing as in the baseline).
WT=$1; SD=$2; OUT=$3
mkdir -p "$OUT"; cd "$WT" || exit 2
git checkout -q -- . 2>/dev/null
log="$OUT/confirm.log"; : > "$log"
build_demo() {  # $1 = output binary
  if [ -f "$SD/demo.c" ]; then
    gcc -w -I skeletons -I . -o "$1" "$SD/demo.c" $(ls skeletons/*.c | grep -v converter-example) -lm >> "$log" 2>&1
  else return 3; fi
}
run_demo() { if [ -f "$SD/demo.sh" ]; then bash "$SD/demo.sh" >> "$log" 2>&1; else build_demo "$OUT/demo.$1" && "$OUT/demo.$1" >> "$log" 2>&1; fi; }
echo "== demo on HEAD" >> "$log"; run_demo orig; R0=$?
git apply "$SD/patch.diff" >> "$log" 2>&1 || { echo "patch does not apply" >> "$log"; echo "RESULT apply-failed" > "$OUT/result.txt"; exit 1; }
echo "== demo with patch" >> "$log"; run_demo patched; R1=$?
if [ ! -f Makefile ]; then (autoreconf -iv && ./configure) >> "$OUT/build.log" 2>&1; fi
echo "== make" >> "$log"; nice make -j4 >> "$OUT/build.log" 2>&1; RB=$?
echo "== make check" >> "$log"; nice make -k check -j4 > "$OUT/check.log" 2>&1
NP=$(grep -c "^PASS" "$OUT/check.log"); FL=$(grep -E "^(FAIL|ERROR)" "$OUT/check.log" | sort -u | tr '\n' ' ')
git checkout -q -- .
echo "RESULT demo_orig_rc=$R0 demo_patched_rc=$R1 build_rc=$RB tests_pass=$NP tests_fail=[$FL]" | tee "$OUT/result.txt"
