#!/bin/bash
# usage: confirm_seed.sh <worktree> <seed dir inside the worktree (_seed/mN)> <out dir>
# Confirms in the scratch worktree: the tree builds, the demo passes on HEAD, the patch applies and the tree still
# builds, the demo fails with the patch, and the repository's test suite (make check) still passes with the patch
# (82 PASS; check-parsing.sh fails in the baseline too).
WT=$1; SD=$2; OUT=$3; J=${J:-3}
mkdir -p "$OUT"; cd "$WT" || exit 2
git checkout -q -- . 2>/dev/null
log="$OUT/confirm.log"; : > "$log"
if [ ! -f Makefile ]; then (autoreconf -iv && ./configure) > "$OUT/configure.log" 2>&1; fi
nice make -j$J > "$OUT/build0.log" 2>&1
run_demo() {
  if [ -f "$SD/demo.sh" ]; then sh "$SD/demo.sh" >> "$log" 2>&1
  else
    extra=""; [ -f "$SD/T.c" ] && extra="$SD/T.c"
    inc=""; [ -d "$SD/gen" ] && { inc="-I $SD/gen"; grep -q '#include "gen/.*\.c"' "$SD/demo.c" || extra="$extra $(ls $SD/gen/*.c 2>/dev/null | tr '\n' ' ')"; }
    wrap=$(grep -o -- '-Wl,--wrap=[^ ]*' "$SD/run.txt" 2>/dev/null | head -1)     # demos that interpose the allocator say so in run.txt
    gcc -w $inc -I skeletons -I . -I "$SD" -o "$OUT/demo.$1" "$SD/demo.c" $extra $(ls skeletons/*.c | grep -v converter-example) -lm $wrap >> "$log" 2>&1 && "$OUT/demo.$1" >> "$log" 2>&1
  fi
}
echo "== demo on HEAD" >> "$log"; run_demo orig; R0=$?
git apply "$SD/patch.diff" >> "$log" 2>&1 || { echo "RESULT apply-failed" | tee "$OUT/result.txt"; exit 1; }
echo "== make with patch" >> "$log"; nice make -j$J > "$OUT/build1.log" 2>&1; RB=$?
echo "== demo with patch" >> "$log"; run_demo patched; R1=$?
echo "== make check with patch" >> "$log"; nice make -k check -j$J > "$OUT/check.log" 2>&1
NP=$(grep -c "^PASS" "$OUT/check.log"); FL=$(grep -E "^(FAIL|ERROR)" "$OUT/check.log" | sort -u | tr '\n' ' ')
git checkout -q -- .
nice make -j$J > /dev/null 2>&1
echo "RESULT demo_orig_rc=$R0 demo_patched_rc=$R1 build_rc=$RB tests_pass=$NP tests_fail=[$FL]" | tee "$OUT/result.txt"
