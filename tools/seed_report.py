#!/usr/bin/env python3
"""Collects confirmation results (tools/confirm_seed.sh) into seeded/<id>/meta.json and writes seeded/README.md."""
import json, os, glob
V='/verif/seeded'
rows=[]
for d in sorted(glob.glob(V+'/C*_m*')):
    k=os.path.basename(d); mp=d+'/meta.json'
    m=json.load(open(mp)) if os.path.exists(mp) else {}
    rp='/var/tmp/seedconf/%s/result.txt'%k
    if os.path.exists(rp):
        m['confirmed_by_verifier_author']={'script':'tools/confirm_seed.sh <scratch worktree> <seed dir> <out>: build, demo on HEAD, apply patch, build, demo with patch, make -k check','result':open(rp).read().strip()}
        json.dump(m,open(mp,'w'),indent=1)
    v=m.get('verif_verdict',{})
    what=(m.get('what_it_needs_to_manifest') or m.get('needs') or '')
    if isinstance(what,(list,dict)): what=json.dumps(what)
    fn=m.get('function') or ''
    if isinstance(fn,list): fn=', '.join(fn)
    files=m.get('files') or []
    if isinstance(files,str): files=[files]
    conf=m.get('confirmed_by_verifier_author',{}).get('result','(confirmation pending)')
    rows.append((k, ', '.join(os.path.basename(f) for f in files)+' '+fn, str(what)[:160].replace('\n',' ').replace('|','/'), v.get('status','?'), v.get('caught_by',''), v.get('note',''), conf.replace('RESULT ','')))
with open(V+'/README.md','w') as f:
    f.write('# Seeded changes\n\nEach directory holds `patch.diff`, the demonstration (`demo.c` / `demo.sh` + inputs), `run.txt` and `meta.json`.\nThey were written by sub-agents that saw only the property text and a scratch worktree; none is committed in /repo.\nTo run a check against one: `git -C /repo apply seeded/<id>/patch.diff; ./check <property> quick; git -C /repo checkout -- .`, or, without touching /repo, `tools/seed_check.sh <id> <obligation,...>` (applies the patch to a scratch copy and points the driver at it).\n\n')
    f.write('| seed | where | needs to manifest | verdict | obligation(s) | note | confirmation (demo / build / 82 tests) |\n|---|---|---|---|---|---|---|\n')
    for r in rows: f.write('| '+' | '.join(r)+' |\n')
    n=len(rows); c=sum(1 for r in rows if r[3]=='caught')
    f.write('\n%d seeds, %d caught, %d missed, %d pending.\n'%(n,c,sum(1 for r in rows if r[3]=='missed'),sum(1 for r in rows if r[3]=='pending')))
print(open(V+'/README.md').read()[-200:])
