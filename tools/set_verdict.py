#!/usr/bin/env python3
"""usage: set_verdict.py <seed> <status> <caught_by> <note>"""
import json, sys
p = '/verif/seeded/%s/meta.json' % sys.argv[1]
m = json.load(open(p))
m['verif_verdict'] = {'status': sys.argv[2], 'caught_by': sys.argv[3], 'note': sys.argv[4]}
json.dump(m, open(p, 'w'), indent=1)
