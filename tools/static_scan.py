#!/usr/bin/env python3
"""
C19 supporting static fact (mechanical, every run): compile the whole skeleton library of /repo's
current working tree with goto-cc and list every function that writes (ASSIGN) or leaks the
address of (CALL argument / ASSIGN right-hand side) a static-lifetime, non-const object.
Reentrancy of the codecs rests on there being none in codec paths.  The writers present on the
unchanged tree are listed in /verif/c19_static_allow.json (debug helpers only); any other
(function, object) pair is reported.
usage: static_scan.py <repo> <allowfile>   -> JSON on stdout, exit 0 ok / 1 new writer / 2 error
"""
import sys, os, re, json, subprocess, tempfile, shutil

def main():
    repo, allowf = sys.argv[1], sys.argv[2]
    allow = json.load(open(allowf))['allowed']
    tmp = tempfile.mkdtemp(prefix='vfscan.', dir='/var/tmp')
    try:
        srcs = sorted(f for f in os.listdir(os.path.join(repo, 'skeletons')) if f.endswith('.c') and f != 'converter-example.c')
        gb = os.path.join(tmp, 'lib.gb')
        p = subprocess.run(['goto-cc', '-std=gnu99', '-I', os.path.join(repo, 'skeletons'), '-I', repo,
                            '-D__builtin_nanf(x)=(0.0f/0.0f)'] + [os.path.join(repo, 'skeletons', f) for f in srcs] + ['-o', gb],
                           stdout=subprocess.PIPE, stderr=subprocess.PIPE)
        if p.returncode != 0:
            print(json.dumps({'error': 'goto-cc failed: ' + p.stderr.decode()[-300:]}))
            return 2
        st = subprocess.run(['goto-instrument', '--show-symbol-table', '--json-ui', gb], stdout=subprocess.PIPE, stderr=subprocess.DEVNULL).stdout.decode('utf-8', 'replace')
        statics = {}
        for el in json.loads(st, strict=False):
            for name, s in (el.get('symbolTable') or {}).items():
                if not s.get('isStaticLifetime') or s.get('isType') or name.startswith('__CPROVER'):
                    continue
                t = s.get('type') or {}
                if t.get('id') == 'code':
                    continue
                loc = (s.get('location') or {}).get('file', '')
                if not loc.startswith(repo):
                    continue
                statics[name] = {'const': '#constant' in json.dumps(t)[:600], 'type': s.get('prettyType', ''), 'file': os.path.basename(loc)}
        txt = subprocess.run(['goto-instrument', '--show-goto-functions', gb], stdout=subprocess.PIPE, stderr=subprocess.DEVNULL).stdout.decode('utf-8', 'replace')
        names = sorted((n for n, v in statics.items() if not v['const']), key=len, reverse=True)
        rx = re.compile('|'.join(re.escape(n) + r'(?![A-Za-z0-9_$:])' for n in names))
        fn = None
        found = {}
        nfun = 0
        for line in txt.splitlines():
            mo = re.match(r'^([A-Za-z_][A-Za-z0-9_$]*) /\* ', line)
            if mo:
                fn = mo.group(1); nfun += 1
                continue
            if not fn or fn.startswith('__CPROVER'):
                continue
            ls = line.strip()
            kind = None
            if re.match(r'(\d+: )?ASSIGN ', ls):
                lhs, _, rhs = re.sub(r'^(\d+: )?ASSIGN ', '', ls).partition(' := ')
                m1 = rx.search(lhs)
                if m1:
                    found.setdefault((fn, m1.group(0)), set()).add('write')
                for m2 in rx.finditer(rhs):
                    if 'address_of(' + m2.group(0) in rhs:
                        found.setdefault((fn, m2.group(0)), set()).add('address-taken')
            elif ' CALL ' in ' ' + ls or ls.startswith('CALL '):
                for m2 in rx.finditer(ls):
                    if 'address_of(' + m2.group(0) in ls:
                        found.setdefault((fn, m2.group(0)), set()).add('address-passed')
        # calls into libc functions that keep hidden static state (ISO C / POSIX: not required to be thread-safe)
        NONREENTRANT = ('gmtime', 'localtime', 'ctime', 'asctime', 'strtok', 'rand', 'srand', 'strerror', 'setlocale', 'tmpnam', 'getenv', 'putenv', 'setenv', 'unsetenv', 'tzset', 'random', 'srandom')
        fn = None
        for line in txt.splitlines():
            mo = re.match(r'^([A-Za-z_][A-Za-z0-9_$]*) /\* ', line)
            if mo:
                fn = mo.group(1)
                continue
            if not fn or fn.startswith('__CPROVER'):
                continue
            mo = re.search(r'CALL (?:[^ ]+ := )?([A-Za-z_][A-Za-z0-9_]*)\(', line)
            if mo and mo.group(1) in NONREENTRANT:
                found.setdefault((fn, 'libc:' + mo.group(1)), set()).add('call')
                statics['libc:' + mo.group(1)] = {'const': False, 'type': 'non-reentrant libc function', 'file': ''}
        res = []
        new = []
        for (f, s), kinds in sorted(found.items()):
            # passing the address of a type descriptor / operation table / constraint table is how the library works: those are read-only by convention
            # and every *write* to them is caught above; so only writes, and address escapes of other objects, are listed.
            ty = statics[s]['type']
            table = ty.startswith('asn_TYPE_') or ty.startswith('asn_per_constraints') or 'specifics' in ty or 'specialRealValue' in ty
            if table and 'write' not in kinds:
                continue
            # block-scope numbers in CBMC's mangled names (f::1::9::x) change with harmless edits: compare by f::x
            item = {'function': f, 'object': re.sub(r'::\d+', '', s), 'kinds': sorted(kinds), 'type': ty}
            res.append(item)
            if not any(a['function'] == f and a['object'] == item['object'] for a in allow):
                new.append(item)
        print(json.dumps({'functions_scanned': nfun, 'static_objects': len(statics), 'non_const_static_objects': len(names),
                          'writers_or_escapes': res, 'new': new}, indent=1))
        return 1 if new else 0
    finally:
        shutil.rmtree(tmp, ignore_errors=True)

if __name__ == '__main__':
    sys.exit(main())
