#!/usr/bin/env python3
"""
C15 supporting static fact (mechanical, every run): the decoder context (asn_codec_ctx_t, which carries max_stack_size)
is propagated.  The skeleton library of /repo's current tree is compiled with goto-cc; for every function F whose
parameter list has a `const asn_codec_ctx_t *` parameter P, every call in F's body to a function that itself takes a
codec context as its first parameter -- by name, or through one of the decoder slots of the operation table
(ber_decoder, oer_decoder, uper_decoder, xer_decoder) -- must pass P itself (F::P) in that position.  A call that passes
NULL or anything else resets the stack accounting for everything below it.  Deviations present on the pinned tree are
listed in the allow file; any other is reported.
usage: ctx_scan.py <repo> <allowfile>   -> JSON on stdout, exit 0 ok / 1 new deviation / 2 error
"""
import sys, os, re, json, subprocess, tempfile, shutil

SLOTS = ('ber_decoder', 'oer_decoder', 'uper_decoder', 'xer_decoder')

def first_arg(args):
    depth = 0
    for i, c in enumerate(args):
        if c in '([':
            depth += 1
        elif c in ')]':
            if depth == 0:
                return args[:i]
            depth -= 1
        elif c == ',' and depth == 0:
            return args[:i]
    return args

def main():
    repo, allowf = sys.argv[1], sys.argv[2]
    allow = json.load(open(allowf))['allowed']
    tmp = tempfile.mkdtemp(prefix='vfctx.', dir='/var/tmp')
    try:
        srcs = sorted(f for f in os.listdir(os.path.join(repo, 'skeletons')) if f.endswith('.c') and f != 'converter-example.c')
        gb = os.path.join(tmp, 'lib.gb')
        p = subprocess.run(['goto-cc', '-std=gnu99', '-I', os.path.join(repo, 'skeletons'), '-I', repo,
                            '-D__builtin_nanf(x)=(0.0f/0.0f)'] + [os.path.join(repo, 'skeletons', f) for f in srcs] + ['-o', gb],
                           stdout=subprocess.PIPE, stderr=subprocess.PIPE)
        if p.returncode != 0:
            print(json.dumps({'error': 'goto-cc failed: ' + p.stderr.decode()[-300:]}))
            return 2
        st = subprocess.run(['goto-instrument', '--show-symbol-table', '--json-ui', gb], stdout=subprocess.PIPE, stderr=subprocess.DEVNULL).stdout.decode('utf-8', 'replace')
        ctxfun = {}     # function -> name of its context parameter (must be the first parameter to count as a callee)
        ctxparam = {}   # function -> F::P for any position
        for el in json.loads(st, strict=False):
            for name, s in (el.get('symbolTable') or {}).items():
                t = s.get('type') or {}
                if t.get('id') != 'code' or name.startswith('__CPROVER'):
                    continue
                pt = s.get('prettyType', '')
                mo = re.search(r'\((.*)\)\s*->', pt, re.S) or re.search(r'\((.*)\)', pt, re.S)
                params = mo.group(1) if mo else ''
                if 'asn_codec_ctx' not in params:
                    continue
                plist = [x.strip() for x in params.split(',')]
                if plist and 'asn_codec_ctx' in plist[0]:
                    ctxfun[name] = True
                ctxparam[name] = True
        txt = subprocess.run(['goto-instrument', '--show-goto-functions', gb], stdout=subprocess.PIPE, stderr=subprocess.DEVNULL).stdout.decode('utf-8', 'replace')
        fn = None; nfun = 0; ncalls = 0
        dev = []
        for line in txt.splitlines():
            mo = re.match(r'^([A-Za-z_][A-Za-z0-9_$]*) /\* ', line)
            if mo:
                fn = mo.group(1); nfun += 1
                continue
            if not fn or fn not in ctxparam or ' CALL ' not in ' ' + line:
                continue
            mo = re.search(r'CALL (?:.*? := )?(.*)$', line.strip())
            if not mo:
                continue
            call = mo.group(1)
            callee = None
            m1 = re.match(r'([A-Za-z_][A-Za-z0-9_]*)\((.*)\)$', call)
            if m1 and m1.group(1) in ctxfun:
                callee, args = m1.group(1), m1.group(2)
            else:
                m2 = re.match(r'\*\((.*?)\.(%s)\)\((.*)\)$' % '|'.join(SLOTS), call)
                if m2:
                    callee, args = '(*' + m2.group(2) + ')', m2.group(3)
            if not callee:
                continue
            ncalls += 1
            a0 = first_arg(args).strip()
            if not re.match(re.escape(fn) + r'::[A-Za-z_][A-Za-z0-9_]*$', a0):
                dev.append({'function': fn, 'callee': callee, 'context_argument': re.sub(r'::\d+', '', a0)[:80]})
        new = [d for d in dev if not any(a['function'] == d['function'] and a['callee'] == d['callee'] and a['context_argument'] == d['context_argument'] for a in allow)]
        print(json.dumps({'functions_scanned': nfun, 'functions_with_context': len(ctxparam), 'context_passing_calls': ncalls, 'deviations': dev, 'new': new}, indent=1))
        return 1 if new else 0
    finally:
        shutil.rmtree(tmp, ignore_errors=True)

if __name__ == '__main__':
    sys.exit(main())
