"""
Registry of proof obligations.  Each entry is one goto-cc / goto-instrument / cbmc run.
 kind: enforce (function body against its contract, all inputs; loops closed by loop contracts)
       lemma   (consequence of contracts only: every call replaced by its contract)
       width   (loop bounded by an operand width; --unwind W with unwinding assertions = complete)
       bounded (input-size bound: stand-in, never counted as proof)
"""
OBLIGATIONS = []

def O(**kw):
    kw.setdefault('kind', 'enforce')
    kw.setdefault('tier', 'quick')
    OBLIGATIONS.append(kw)
    return kw

SK = 'skeletons/'

# ---------------------------------------------------------------- L0: BER tag
O(id='ber_fetch_tag', props=['C02', 'C03', 'C04', 'C05'],
  harness='harness/ber_fetch_tag.c', entry='h_ber_fetch_tag',
  units=[SK + 'ber_tlv_tag.c'], include=['contracts/ber_tlv_tag.h'],
  enforce=['ber_fetch_tag'], loops=True, min_props=40, timeout=300)

# ---------------------------------------------------------------- C16: INTEGER conversions
INT = dict(harness='harness/int_conv.c', units=[SK + 'INTEGER.c'], include=['contracts/INTEGER.h'],
           native_units=[SK + f for f in ()], backends=['cvc5', 'sat'])
O(id='asn_imax2INTEGER', props=['C16', 'C14'], kind='width', entry='h_imax2INTEGER', enforce=['asn_imax2INTEGER'],
  unwind=10, bound='loops bounded by sizeof(intmax_t)=8 (unwind 10, unwinding assertions)',
  cbmc=['--malloc-may-fail', '--malloc-fail-null', '--memory-leak-check'], min_props=40, **INT)
O(id='asn_long2INTEGER', props=['C16'], kind='width', entry='h_long2INTEGER', proves=['asn_long2INTEGER', 'asn_INTEGER2long'],
  functions=['asn_long2INTEGER', 'asn_INTEGER2long'], unwind=10, bound='8 octets',
  cbmc=['--malloc-may-fail', '--malloc-fail-null', '--memory-leak-check'], min_props=40, **INT)
O(id='asn_umax2INTEGER', props=['C16', 'C14'], kind='width', entry='h_umax2INTEGER', enforce=['asn_umax2INTEGER'],
  unwind=11, bound='loops bounded by sizeof(uintmax_t)+1=9 (unwind 11, unwinding assertions)',
  cbmc=['--malloc-may-fail', '--malloc-fail-null', '--memory-leak-check'], min_props=40, **INT)
O(id='asn_ulong2INTEGER', props=['C16'], kind='width', entry='h_ulong2INTEGER', proves=['asn_ulong2INTEGER', 'asn_INTEGER2ulong'],
  functions=['asn_ulong2INTEGER', 'asn_INTEGER2ulong'], unwind=11, bound='9 octets',
  cbmc=['--malloc-may-fail', '--malloc-fail-null', '--memory-leak-check'], min_props=40, **INT)

O(id='asn__integer_convert', props=['C16', 'C04'], kind='width', entry='h_integer_convert', enforce=['asn__integer_convert'],
  unwind=10, bound='<= 8 octets (requires clause; callers pass at most sizeof(intmax_t))', min_props=20, **INT)
B24 = 'octet strings of at most 24 octets (16 redundant leading octets); loops unwound 26 times with unwinding assertions'
O(id='asn_INTEGER2imax.b24', props=['C16', 'C04'], kind='bounded', entry='h_INTEGER2imax', enforce=['asn_INTEGER2imax'],
  unwind=26, bound=B24, min_props=40, **INT)
O(id='asn_INTEGER2umax.b24', props=['C16', 'C04'], kind='bounded', entry='h_INTEGER2umax', enforce=['asn_INTEGER2umax'],
  unwind=26, bound=B24, min_props=40, **INT)
O(id='asn_INTEGER2long.b24', props=['C16'], kind='bounded', entry='h_INTEGER2long', functions=['asn_INTEGER2long'],
  unwind=26, bound=B24, min_props=40, **INT)
O(id='asn_INTEGER2ulong.b24', props=['C16'], kind='bounded', entry='h_INTEGER2ulong', functions=['asn_INTEGER2ulong'],
  unwind=26, bound=B24, min_props=40, **INT)

T7 = 'bounded stand-in: every text of <= 7 characters against a reference reading (loops unwound, unwinding assertions)'
TE = 'bounded stand-in: every text [sign][0] + {MAX/10-1, MAX/10, MAX/10+1} + <= 3 arbitrary characters, i.e. the neighbourhood of the overflow boundary (18 concrete prefixes x 3 symbolic characters)'
INT_SAT = dict(INT, backends=['sat'])
for _f, _e in (('asn_strtoimax_lim', 'h_strtoimax'), ('asn_strtoumax_lim', 'h_strtoumax'), ('asn_strtol_lim', 'h_strtol'), ('asn_strtoul_lim', 'h_strtoul')):
    O(id=_f + '.t7', props=['C16', 'C04'], kind='bounded', entry=_e + '_t7', functions=[_f], unwind=10, bound=T7,
      defines=['VF_MAXTXT=8'], min_props=30, timeout=600, **INT_SAT)
    O(id=_f + '.edge', props=['C16', 'C04'], kind='bounded', entry=_e + '_edge', functions=[_f], unwind=30, bound=TE,
      min_props=30, timeout=1500, tier='experimental', **INT_SAT)

UNVERIFIED = {}
