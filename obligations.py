"""
Registry of proof obligations.  Each entry is one goto-cc / goto-instrument / cbmc run.
 kind: enforce (function body against its contract, all inputs; loops closed by loop contracts)
       lemma   (consequence of contracts only: every call replaced by its contract)
       width   (loop bounded by an operand width; --unwind W with unwinding assertions = complete)
       bounded (input-size bound: stand-in, never counted as proof)
"""
OBLIGATIONS = []

def O(**kw):
    kw.setdefault('kind', 'enforce')
    kw.setdefault('tier', 'quick')
    kw.setdefault('include', [])
    kw.setdefault('backends', ['sat'])
    OBLIGATIONS.append(kw)
    return kw

SK = 'skeletons/'

# ---------------------------------------------------------------- L0: BER tag
O(id='ber_fetch_tag', props=['C02', 'C03', 'C04', 'C05'],
  harness='harness/ber_fetch_tag.c', entry='h_ber_fetch_tag',
  units=[SK + 'ber_tlv_tag.c'], include=['contracts/ber_tlv_tag.h'],
  enforce=['ber_fetch_tag'], loops=True, min_props=40, timeout=300)

# ---------------------------------------------------------------- C16: INTEGER conversions
INT = dict(harness='harness/int_conv.c', units=[SK + 'INTEGER.c'], include=['contracts/INTEGER.h'],
           native_units=[SK + f for f in ()], backends=['cvc5', 'sat'])
O(id='asn_imax2INTEGER', props=['C16', 'C14'], kind='width', entry='h_imax2INTEGER', enforce=['asn_imax2INTEGER'],
  unwind=10, bound='loops bounded by sizeof(intmax_t)=8 (unwind 10, unwinding assertions)',
  cbmc=['--malloc-may-fail', '--malloc-fail-null', '--memory-leak-check'], min_props=40, **INT)
O(id='asn_long2INTEGER', props=['C16'], kind='width', entry='h_long2INTEGER', proves=['asn_long2INTEGER', 'asn_INTEGER2long'],
  functions=['asn_long2INTEGER', 'asn_INTEGER2long'], unwind=10, bound='8 octets',
  cbmc=['--malloc-may-fail', '--malloc-fail-null', '--memory-leak-check'], min_props=40, **INT)
O(id='asn_umax2INTEGER', props=['C16', 'C14'], kind='width', entry='h_umax2INTEGER', enforce=['asn_umax2INTEGER'],
  unwind=11, bound='loops bounded by sizeof(uintmax_t)+1=9 (unwind 11, unwinding assertions)',
  cbmc=['--malloc-may-fail', '--malloc-fail-null', '--memory-leak-check'], min_props=40, **INT)
O(id='asn_ulong2INTEGER', props=['C16'], kind='width', entry='h_ulong2INTEGER', proves=['asn_ulong2INTEGER', 'asn_INTEGER2ulong'],
  functions=['asn_ulong2INTEGER', 'asn_INTEGER2ulong'], unwind=11, bound='9 octets',
  cbmc=['--malloc-may-fail', '--malloc-fail-null', '--memory-leak-check'], min_props=40, **INT)

O(id='asn__integer_convert', props=['C16', 'C04'], kind='width', entry='h_integer_convert', enforce=['asn__integer_convert'],
  unwind=10, bound='<= 8 octets (requires clause; callers pass at most sizeof(intmax_t))', min_props=20, **INT)
B24 = 'octet strings of at most 24 octets (16 redundant leading octets); loops unwound 26 times with unwinding assertions'
O(id='asn_INTEGER2imax.b24', props=['C16', 'C04'], kind='bounded', entry='h_INTEGER2imax', enforce=['asn_INTEGER2imax'],
  unwind=26, bound=B24, min_props=40, **INT)
O(id='asn_INTEGER2umax.b24', props=['C16'], kind='bounded', entry='h_INTEGER2umax', enforce=['asn_INTEGER2umax'],
  unwind=26, bound=B24, min_props=40, **INT)
O(id='asn_INTEGER2long.b24', props=['C16'], kind='bounded', entry='h_INTEGER2long', functions=['asn_INTEGER2long'],
  unwind=26, bound=B24, min_props=40, **INT)
O(id='asn_INTEGER2ulong.b24', props=['C16'], kind='bounded', entry='h_INTEGER2ulong', functions=['asn_INTEGER2ulong'],
  unwind=26, bound=B24, min_props=40, **INT)

T7 = 'bounded stand-in: every text of <= 7 characters (<= 5 for the long/unsigned long front ends) against a reference reading (loops unwound, unwinding assertions)'
TE = 'bounded stand-in: every text [sign][0] + {MAX/10-1, MAX/10, MAX/10+1} + <= 3 arbitrary characters, i.e. the neighbourhood of the overflow boundary (18 concrete prefixes x 3 symbolic characters)'
INT_SAT = dict(INT, backends=['sat'])
for _f, _e in (('asn_strtoimax_lim', 'h_strtoimax'), ('asn_strtoumax_lim', 'h_strtoumax'), ('asn_strtol_lim', 'h_strtol'), ('asn_strtoul_lim', 'h_strtoul')):
    O(id=_f + '.t7', props=['C16', 'C04'], kind='bounded', entry=_e + '_t7', functions=[_f], unwind=10, bound=T7,
      defines=['VF_MAXTXT=8' if 'max' in _f else 'VF_MAXTXT=6'], min_props=30, timeout=900, **INT_SAT)
    O(id=_f + '.edge', props=['C16', 'C04'], kind='bounded', entry=_e + '_edge', functions=[_f], unwind=30, bound=TE,
      min_props=30, timeout=1500, tier='experimental', **INT_SAT)

# ---------------------------------------------------------------- C16: REAL
REALK = dict(harness='harness/real_conv.c', units=[SK + 'REAL.c'], include=[], backends=['sat'])
O(id='asn_double2REAL.be', props=['C16', 'C14'], kind='width', entry='h_double2REAL', functions=['asn_double2REAL'],
  proves=['asn_double2REAL'], big_endian=True, stubs=['stubs/math.c'], unwind=10,
  bound='big-endian machine model of the same source (goto-cc --big-endian): all 2^64 bit patterns; loops bounded by sizeof(double)=8',
  trusted=['ilogb: stub over IEEE-754 fields (stubs/math.c)', 'asn_double2REAL: proved under the big-endian machine model; the 3-line little-endian byte-gather loop forms a pointer before the object and is not within CBMC reach (see asn_double2REAL.le-grid)'],
  cbmc=['--malloc-may-fail', '--malloc-fail-null', '--memory-leak-check'], min_props=100, timeout=600, **REALK)

O(id='asn_double2REAL.le', props=['C16', 'C14'], kind='width', entry='h_double2REAL', functions=['asn_double2REAL'],
  stubs=['stubs/math.c'], unwind=10,
  cbmc=['--partial-loops', '--unwindset', 'asn_double2REAL.1:7', '--malloc-may-fail', '--malloc-fail-null', '--memory-leak-check'],
  expected_fail=[r'asn_double2REAL\.unwind\.1'],
  bound='little-endian machine model (the one that runs): all 2^64 bit patterns; loops bounded by sizeof(double)=8',
  trusted=['ilogb: stub over IEEE-754 fields (stubs/math.c)', 'asn_double2REAL little-endian byte-gather loop `for(...; s >= start; s--)` ends by forming a pointer before the object (UB in ISO C, outside CBMC pointer model): modelled as exactly sizeof(double)-1=7 iterations (--partial-loops, unwindset 7)'],
  min_props=100, timeout=600, **REALK)
O(id='REAL_roundtrip.le', props=['C16'], kind='width', entry='h_REAL_roundtrip', functions=['asn_double2REAL', 'asn_REAL2double'],
  stubs=['stubs/math.c'], unwind=10, tier='experimental',
  cbmc=['--partial-loops', '--unwindset', 'asn_double2REAL.1:7', '--no-malloc-may-fail'], expected_fail=[r'asn_double2REAL\.unwind\.1'],
  bound='all 2^64 bit patterns; loops bounded by 8 octets', trusted=['ldexp stub (stubs/math.c)'], min_props=100, timeout=3000, **REALK)
O(id='asn_double2REAL.le-grid', props=['C16'], kind='native', harness='harness/real_grid.c', entry='main',
  functions=['asn_double2REAL', 'asn_REAL2double'], no_canary=True,
  bound='native grid on the real (little-endian) machine: 2048 exponents x 2 signs x 314 boundary mantissas + 300000 VERIF_SEED-driven random bit patterns; octets vs spec_der_real, round trip through asn_REAL2double, ilogb stub vs libc',
  timeout=900)

# ---------------------------------------------------------------- C17: OBJECT IDENTIFIER
OID = dict(harness='harness/oid.c', units=[SK + 'OBJECT_IDENTIFIER.c'], include=['contracts/OBJECT_IDENTIFIER.h'], backends=['cvc5', 'sat'])
O(id='OID_set_single_arc', props=['C17', 'C07'], kind='width', entry='h_set_single_arc', enforce=['OBJECT_IDENTIFIER_set_single_arc'],
  functions=['OBJECT_IDENTIFIER_set_single_arc', 'OBJECT_IDENTIFIER_get_single_arc'], unwind=14,
  bound='all 2^32 arc values; loops bounded by ceil(32/7)=5 octets', min_props=40, **OID)
O(id='OID_get_single_arc.b12', props=['C17', 'C04', 'C03'], kind='bounded', entry='h_get_single_arc', functions=['OBJECT_IDENTIFIER_get_single_arc'],
  unwind=14, bound='octet strings of at most 12 octets (5 significant + 7 padding)', min_props=30, **OID)
O(id='OID_get_single_arc.safe', props=['C04', 'C17'], entry='h_get_single_arc_safe', enforce=['OBJECT_IDENTIFIER_get_single_arc'],
  loops=True, min_props=40, **dict(OID, backends=['sat']))
O(id='OID_get_first_arcs', props=['C17'], kind='width', entry='h_get_first_arcs', functions=['OBJECT_IDENTIFIER_get_first_arcs'],
  unwind=10, bound='first subidentifier of at most 8 octets', min_props=30, **OID)
O(id='OID_arcs_roundtrip.a4', props=['C17', 'C14'], kind='bounded', entry='h_arcs_roundtrip',
  functions=['OBJECT_IDENTIFIER_set_arcs', 'OBJECT_IDENTIFIER_get_arcs'], unwind=7, defines=['VF_MAXARCS=4'],
  bound='arc vectors of at most 4 arcs, every arc value (unwind 7 = 5 octets per arc + 2; get_arcs loop 5)',
  cbmc=['--unwindset', 'OBJECT_IDENTIFIER_get_arcs.0:6', '--malloc-may-fail', '--malloc-fail-null', '--memory-leak-check'], min_props=60,
  **dict(OID, backends=['sat']))

# ---------------------------------------------------------------- L0: BER tag / length
O(id='ber_tlv_tag_serialize', props=['C01', 'C02', 'C07'], kind='width', harness='harness/ber_tag.c', entry='h_ber_tlv_tag_serialize',
  units=[SK + 'ber_tlv_tag.c'], include=['contracts/ber_tlv_tag.h'], enforce=['ber_tlv_tag_serialize'],
  functions=['ber_tlv_tag_serialize', 'ber_fetch_tag'], unwind=8, bound='all 2^32 tags; loops bounded by ceil(30/7)+1 octets',
  min_props=40, backends=['cvc5', 'sat'])
BL = dict(harness='harness/ber_len.c', units=[SK + 'ber_tlv_length.c'], backends=['sat'])
O(id='ber_fetch_length', props=['C03', 'C04', 'C05', 'C19'], kind='width', entry='h_ber_fetch_length', functions=['ber_fetch_length'],
  enforce=['ber_fetch_length'], include=['contracts/ber_tlv_length.h'], unwind=129, bound='length-of-length field is 7 bits: at most 1+126 octets are read (buffer of 132 octets, unwind 129, unwinding assertions)',
  min_props=20, timeout=600, **BL)
O(id='ber_fetch_length.prefix', props=['C05'], kind='width', entry='h_ber_fetch_length_prefix', functions=['ber_fetch_length'], include=[],
  unwind=129, bound='as ber_fetch_length', min_props=20, timeout=600, **BL)
O(id='der_tlv_length_serialize', props=['C01', 'C02', 'C07', 'C19'], kind='width', entry='h_der_tlv_length_serialize',
  functions=['der_tlv_length_serialize', 'ber_fetch_length'], enforce=['der_tlv_length_serialize'], include=['contracts/ber_tlv_length.h'], unwind=10,
  bound='all lengths 0..SSIZE_MAX; loops bounded by sizeof(ssize_t)=8', min_props=30, **BL)

# ---------------------------------------------------------------- L0: OER length
OS = dict(harness='harness/h_oer_support.c', units=[SK + 'oer_support.c'], include=['contracts/oer_support.h'], backends=['sat'])
O(id='oer_serialize_length', props=['C01', 'C02', 'C07'], kind='width', entry='h_oer_serialize_length',
  functions=['oer_serialize_length', 'oer_fetch_length'], proves=['oer_serialize_length'], unwind=18,
  bound='all 2^64 lengths; loops bounded by sizeof(size_t)=8; callback = recording harness callback that may fail', min_props=30, **OS)
O(id='oer_fetch_length', props=['C03', 'C04', 'C05', 'C19'], kind='width', entry='h_oer_fetch_length', functions=['oer_fetch_length'],
  enforce=['oer_fetch_length'], unwind=129, bound='length-of-length field is 7 bits: at most 1+127 octets are read (buffer of 132 octets)', min_props=20, timeout=600, **OS)
O(id='oer_fetch_length.prefix', props=['C05'], kind='width', entry='h_oer_fetch_length_prefix', functions=['oer_fetch_length'],
  unwind=129, bound='as oer_fetch_length', min_props=20, timeout=600, **OS)

# ---------------------------------------------------------------- L0: bit I/O
BD = dict(harness='harness/h_bit_data.c', units=[SK + 'asn_bit_data.c'], include=[], backends=['sat'])
O(id='asn_get_few_bits', props=['C02', 'C04', 'C05'], kind='width', entry='h_get_few_bits', functions=['asn_get_few_bits', 'asn_get_undo'],
  proves=['asn_get_few_bits', 'asn_get_undo'], unwind=33, cbmc=['--unwindset', 'asn_get_few_bits:4'],
  bound='every stream state over a 16-octet window, every width (int); no refill callback; recursion depth <= 2', min_props=40, **BD)
O(id='asn_get_many_bits', props=['C02', 'C04'], kind='bounded', tier='thorough', timeout=900, entry='h_get_many_bits', functions=['asn_get_many_bits'],
  unwind=6, cbmc=['--unwindset', 'asn_get_few_bits:4'], bound='up to 32 bits per call', min_props=40, **dict(BD, backends=['sat', 'cvc5']))
O(id='asn_put_few_bits', props=['C02', 'C04', 'C07'], kind='width', entry='h_put_few_bits', functions=['asn_put_few_bits'],
  proves=['asn_put_few_bits'], unwind=10, cbmc=['--unwindset', 'asn_put_few_bits:3'],
  bound='every output state (32-octet scratch space), every value and width; callback may fail', min_props=40, **BD)
O(id='asn_put_many_bits', props=['C02', 'C07'], kind='bounded', tier='experimental', entry='h_put_many_bits', functions=['asn_put_many_bits'],
  unwind=10, cbmc=['--unwindset', 'asn_put_few_bits:3,asn_put_many_bits.0:6'], bound='up to 32 bits per call', min_props=40, **dict(BD, backends=['cvc5', 'sat']))
O(id='asn_put_aligned_flush', props=['C02', 'C06', 'C07'], kind='width', entry='h_put_aligned_flush', functions=['asn_put_aligned_flush'],
  proves=['asn_put_aligned_flush'], unwind=10, bound='every output state; callback may fail', min_props=30, **BD)
O(id='bits_roundtrip', props=['C01'], kind='width', entry='h_bits_roundtrip', functions=['asn_put_few_bits', 'asn_put_aligned_flush', 'asn_get_few_bits'],
  unwind=10, cbmc=['--unwindset', 'asn_put_few_bits:3,asn_get_few_bits:4'], bound='all widths 0..31 at all bit offsets 0..31, all values', min_props=40, **BD)

# ---------------------------------------------------------------- L0: PER support
PS = dict(harness='harness/h_per_support.c', units=[SK + 'per_support.c', SK + 'asn_bit_data.c'],
          cbmc=['--unwindset', 'asn_put_few_bits:3,asn_get_few_bits:4,uper_get_constrained_whole_number:4,uper_put_constrained_whole_number_u:4'])
O(id='per_long_range_rebase', props=['C01', 'C02', 'C08', 'C19'], kind='width', entry='h_long_range', functions=['per_long_range_rebase', 'per_long_range_unrebase', 'per__long_range'],
  enforce=['per_long_range_rebase'], include=['contracts/per_support.h'], backends=['cvc5', 'sat'], unwind=2, bound='all triples of long (loop-free)', min_props=10, **PS)
O(id='per_long_range_unrebase', props=['C01', 'C04', 'C19'], kind='width', entry='h_long_unrebase', functions=['per_long_range_unrebase'],
  enforce=['per_long_range_unrebase'], include=['contracts/per_support.h'], backends=['cvc5', 'sat'], unwind=2, bound='all (unsigned long, long, long) triples (loop-free)', min_props=10, **PS)
O(id='uper_length', props=['C01', 'C02', 'C03'], kind='width', entry='h_uper_length', functions=['uper_put_length', 'uper_get_length'],
  proves=['uper_put_length'], unwind=34, bound='all 2^64 lengths at all bit alignments (loop-free code; harness field reader unwound)', min_props=30, **PS)
O(id='uper_length_constrained', props=['C01', 'C02'], kind='width', entry='h_uper_length_constrained', functions=['uper_get_length'],
  unwind=34, bound='all effective-bit widths 0..16', min_props=30, **PS)
O(id='uper_get_length.any', props=['C04', 'C15'], kind='width', entry='h_uper_get_length_any', functions=['uper_get_length'],
  proves=['uper_get_length'], unwind=34, bound='every 32-bit input window at every offset', min_props=30, **PS)
O(id='uper_nsnnwn', props=['C01', 'C02'], kind='width', entry='h_nsnnwn', functions=['uper_put_nsnnwn', 'uper_get_nsnnwn'],
  proves=['uper_put_nsnnwn', 'uper_get_nsnnwn'], unwind=34, bound='all int values, all alignments', min_props=30, **PS)
O(id='uper_nslength', props=['C01', 'C02'], kind='width', entry='h_nslength', functions=['uper_put_nslength', 'uper_get_nslength'],
  proves=['uper_put_nslength', 'uper_get_nslength'], unwind=34, bound='all size_t lengths, all alignments', min_props=30, **PS)
O(id='uper_cwn.le31', props=['C01', 'C02'], kind='width', entry='h_cwn', functions=['uper_put_constrained_whole_number_u', 'uper_get_constrained_whole_number'],
  proves=['uper_put_constrained_whole_number_u', 'uper_get_constrained_whole_number'], unwind=34, bound='all values, widths 0..31, all alignments', min_props=30, timeout=1500, **PS)
O(id='uper_cwn.gt31', props=['C01', 'C02'], kind='width', entry='h_cwn', functions=['uper_put_constrained_whole_number_u', 'uper_get_constrained_whole_number'],
  unwind=34, defines=['VF_CWN_WIDE'], bound='all values, widths 32..64 (octet-aligned start; alignment is the business of asn_put_few_bits)', min_props=30, timeout=1500, **PS)

# ---------------------------------------------------------------- C07: encoder API
def cb_restrict(outer, inner):
    """outer: callbacks the type encoder / bit stream can be handed in this harness; inner: what the forwarding wrappers forward to"""
    return [(r'callback_failure_catch_cb::1::key\.callback', ['vf_cb']),
            (r'callback_count_bytes_cb::1::key\.callback', inner),
            (r'\.output\)$|::cb$|::callback$|consume_bytes$', outer)]
CB_RESTRICT = cb_restrict(['callback_failure_catch_cb', 'callback_count_bytes_cb'], ['callback_failure_catch_cb'])
API = dict(harness='harness/h_encode_api.c', fp_restrict=CB_RESTRICT, units=[SK + 'asn_application.c'], include=[], backends=['sat'],
           link=[SK + f for f in ('asn_application.c', 'der_encoder.c', 'oer_encoder.c', 'per_encoder.c', 'xer_encoder.c', 'asn_bit_data.c', 'per_support.c', 'oer_support.c', 'ber_tlv_tag.c', 'ber_tlv_length.c')],
           cbmc=['--unwindset', 'asn_put_few_bits:3'],
           unverified=['constructed and generated encoders are assumed to obey the operation-slot convention that the stub encoder enumerates (chunks to the callback; ASN__ENCODE_FAILED on callback failure)'])
APIB = 'stub type encoder hands at most 3 chunks of <= 8 octets (PER: one field of <= 31 bits) to the callback; every transfer syntax value; every callback failure point'
SYNTAXES = [(0, 'INVALID'), (1, 'PLAINTEXT'), (2, 'RANDOM'), (3, 'BER'), (4, 'DER'), (5, 'CER'), (6, 'BASIC_OER'), (7, 'CANONICAL_OER'),
            (8, 'BASIC_UPER'), (9, 'CANONICAL_UPER'), (10, 'BASIC_XER'), (11, 'CANONICAL_XER'), (12, 'out-of-range')]
for _c, _n in SYNTAXES:
    O(id='asn_encode.' + _n, props=['C07'], kind='bounded', entry='h_asn_encode', defines=['VF_SYN=%d' % _c],
      functions=['asn_encode', 'asn_encode_internal', 'callback_failure_catch_cb', 'callback_count_bytes_cb', 'der_encode', 'oer_encode', 'uper_encode', '_uper_encode_flush_outp', 'xer_encode'],
      unwind=10, bound=APIB, min_props=20, timeout=600, **API)
    O(id='asn_encode_to_buffer.' + _n, props=['C07'], kind='bounded', entry='h_asn_encode_to_buffer', defines=['VF_SYN=%d' % _c],
      tier='experimental' if 'UPER' in _n else 'quick',
      functions=['asn_encode_to_buffer', 'overrun_encoder_cb', 'asn_encode_internal'],
      unwind=10, bound=APIB + '; every pair of buffer sizes 0..40', min_props=20, timeout=600,
      **dict(API, fp_restrict=cb_restrict(['overrun_encoder_cb', 'callback_count_bytes_cb'], ['overrun_encoder_cb'])))
    O(id='asn_encode_to_new_buffer.' + _n, props=['C07', 'C14'], kind='bounded', entry='h_asn_encode_to_new_buffer', defines=['VF_SYN=%d' % _c],
      tier='experimental' if 'UPER' in _n else 'quick',
      functions=['asn_encode_to_new_buffer', 'dynamic_encoder_cb', 'asn_encode_internal'],
      unwind=10, bound=APIB + '; every allocation may fail', min_props=20, timeout=600,
      **dict(API, fp_restrict=cb_restrict(['dynamic_encoder_cb', 'callback_count_bytes_cb'], ['dynamic_encoder_cb']),
             cbmc=['--unwindset', 'asn_put_few_bits:3', '--malloc-may-fail', '--malloc-fail-null', '--memory-leak-check']))
O(id='der_encode_to_buffer', props=['C07'], kind='bounded', entry='h_der_encode_to_buffer', functions=['der_encode_to_buffer', 'encode_to_buffer_cb'],
  unwind=10, bound=APIB, min_props=30, **dict(API, fp_restrict=None))
O(id='uper_encode_to_buffer', props=['C07'], kind='bounded', tier='experimental', entry='h_uper_encode_to_buffer', functions=['uper_encode_to_buffer', 'uper_encode', 'encode_to_buffer_cb'],
  unwind=10, bound=APIB, min_props=30, **dict(API, fp_restrict=cb_restrict(['encode_to_buffer_cb', 'encode_to_buffer_cb$link1', 'encode_to_buffer_cb$link2'], [])))
O(id='uper_encode_to_new_buffer', props=['C07', 'C14'], kind='bounded', tier='experimental', entry='h_uper_encode_to_new_buffer', functions=['uper_encode_to_new_buffer', 'encode_dyn_cb'],
  unwind=10, bound=APIB + '; every allocation may fail', min_props=30,
  **dict(API, fp_restrict=cb_restrict(['encode_dyn_cb'], []), cbmc=['--unwindset', 'asn_put_few_bits:3', '--malloc-may-fail', '--malloc-fail-null', '--memory-leak-check']))

# ---------------------------------------------------------------- DER TL writer
DE = dict(harness='harness/h_der_encoder.c', units=[SK + 'der_encoder.c'], include=[], backends=['sat'])
O(id='der_write_TL', props=['C02', 'C07'], kind='width', entry='h_der_write_TL', functions=['der_write_TL'], proves=['der_write_TL'],
  unwind=42, cbmc=['--unwindset', 'ber_fetch_length.0:10,ber_fetch_tag.0:8'], bound='all tags, all lengths 0..RSSIZE_MAX; callback may fail', min_props=40, **DE)
for _tc in range(5):
    for _tm in (-1, 0, 1):
        O(id='der_write_tags.c%d.m%d' % (_tc, _tm), props=['C02', 'C07'], kind='bounded', entry='h_der_write_tags', functions=['der_write_tags', 'der_write_TL'],
          defines=['VF_TAGS_COUNT=%d' % _tc, 'VF_TAG_MODE=%d' % _tm], unwind=42, cbmc=['--unwindset', 'ber_fetch_length.0:10,ber_fetch_tag.0:8'],
          bound='descriptor with %d tags, tag_mode %d, tag numbers < 2^14, contents length <= 2^40; callback may fail at any call' % (_tc, _tm),
          min_props=40, timeout=900, tier=('thorough' if (_tc == 3 and _tm == 1) else 'quick'), **DE)

# ---------------------------------------------------------------- primitive BER/DER codec
PR = dict(harness='harness/h_prim.c', units=[SK + 'asn_codecs_prim.c', SK + 'ber_decoder.c'], include=[], backends=['sat'])
PRC = ['--unwindset', 'ber_fetch_length.0:16,ber_fetch_tag.0:16', '--malloc-may-fail', '--malloc-fail-null', '--memory-leak-check']
O(id='ber_decode_primitive.b14', props=['C04', 'C05', 'C14', 'C15'], kind='bounded', entry='h_ber_decode_primitive',
  functions=['ber_decode_primitive', 'ber_check_tags', 'ber_fetch_tag', 'ber_fetch_length', 'ASN__PRIMITIVE_TYPE_free'],
  unwind=18, cbmc=PRC, bound='every input of at most 14 octets, descriptors with 1..3 arbitrary tags, tag_mode -1/0/1; every allocation may fail',
  trusted=['ASN__STACK_OVERFLOW_CHECK: compares addresses of different objects; evaluated by CBMC as-is with max_stack_size 0 (check disabled)'],
  min_props=100, timeout=900, **PR)
O(id='ber_decode_primitive.prefix', props=['C05'], kind='bounded', entry='h_ber_decode_primitive_prefix',
  functions=['ber_decode_primitive', 'ber_check_tags'], unwind=18, cbmc=['--unwindset', 'ber_fetch_length.0:16,ber_fetch_tag.0:16', '--no-malloc-may-fail'],
  bound='every input of at most 14 octets and every cut point, 1..2 tags', min_props=100, timeout=900, **PR)
PRC0 = ['--unwindset', 'ber_fetch_length.0:16,ber_fetch_tag.0:16']
for _nt in (1, 2):
    O(id='prim_der_roundtrip.t%d' % _nt, props=['C01', 'C07'], kind='bounded', entry='h_prim_roundtrip', defines=['VF_NTAGS=%d' % _nt],
      functions=['der_encode_primitive', 'der_write_tags', 'ber_decode_primitive', 'ber_check_tags'], unwind=18, cbmc=PRC0,
      bound='contents of at most 6 octets, %d tag(s) with numbers < 128; callback may fail at any call' % _nt, min_props=100, timeout=900, **PR)
O(id='ber_check_tags.chain2', props=['C03', 'C04', 'C05'], kind='bounded', entry='h_ber_check_tags_chain', functions=['ber_check_tags'],
  unwind=18, cbmc=PRC0, bound='two-tag chains with one-octet tags, every input of at most 6 octets', min_props=50, timeout=600, **PR)
O(id='der_encode_primitive.malformed', props=['C07'], kind='bounded', entry='h_der_encode_primitive_malformed', functions=['der_encode_primitive'],
  unwind=42, cbmc=PRC, bound='structures with NULL / non-NULL buffer and size 0..4', min_props=50, **PR)
O(id='ASN__PRIMITIVE_TYPE_free', props=['C14'], kind='width', entry='h_prim_free', functions=['ASN__PRIMITIVE_TYPE_free'], proves=['ASN__PRIMITIVE_TYPE_free'],
  unwind=4, cbmc=['--memory-leak-check'], bound='all three free methods, with and without a buffer (loop-free)', min_props=20, **PR)

# ---------------------------------------------------------------- INTEGER / NativeInteger over DER
ID = dict(harness='harness/h_integer_der.c', units=[SK + 'INTEGER.c', SK + 'NativeInteger.c'], include=[], backends=['sat'],
          fp_restrict=[(r'::cb$|consume_bytes$|callback$', ['vf_cb'])])
IDC = ['--unwindset', 'ber_fetch_length.0:16,ber_fetch_tag.0:16', '--no-malloc-may-fail']
O(id='INTEGER_encode_der.canon', props=['C02', 'C06', 'C07'], kind='bounded', entry='h_INTEGER_encode_der', functions=['INTEGER_encode_der', 'der_encode_primitive'],
  unwind=18, cbmc=IDC, bound='INTEGER buffers of 1..10 octets (up to 9 redundant leading octets)', min_props=50, timeout=600, **ID)
O(id='NativeInteger_der', props=['C01', 'C02', 'C13'], kind='width', entry='h_NativeInteger_der',
  functions=['NativeInteger_encode_der', 'INTEGER_encode_der', 'NativeInteger_decode_ber'], proves=['NativeInteger_encode_der'],
  unwind=18, cbmc=IDC,
  bound='all 2^64 long values', min_props=50, timeout=600, **ID)
O(id='NativeInteger_der.unsigned', props=['C01', 'C02', 'C13'], kind='width', entry='h_NativeInteger_der_unsigned',
  functions=['NativeInteger_encode_der', 'INTEGER_encode_der', 'NativeInteger_decode_ber'],
  unwind=18, cbmc=IDC,
  bound='all 2^64 unsigned long values (field_unsigned)', min_props=50, timeout=600, **ID)
O(id='NativeInteger_decode_ber.b14', props=['C03', 'C04', 'C05'], kind='bounded', entry='h_NativeInteger_decode_ber', functions=['NativeInteger_decode_ber', 'ber_check_tags'],
  unwind=18, cbmc=IDC, bound='every input of at most 14 octets, signed and unsigned native fields', min_props=50, timeout=600, **ID)

# ---------------------------------------------------------------- NativeInteger over UPER
IU = dict(harness='harness/h_integer_uper.c', units=[SK + 'INTEGER.c', SK + 'NativeInteger.c', SK + 'per_support.c'], include=[], backends=['sat'],
          fp_restrict=[(r'\.output\)$', ['vf_cb'])])
IUC = ['--unwindset', 'asn_put_few_bits:3,asn_get_few_bits:4,uper_get_constrained_whole_number:4,uper_put_constrained_whole_number_u:4']
for _rb in (0, 1, 8, 16, 32, 64):
    O(id='NativeInteger_uper.constrained.rb%d' % _rb, props=['C01', 'C02', 'C08', 'C13'], kind='bounded', entry='h_NativeInteger_uper_constrained',
      defines=['VF_RB=%d' % _rb], functions=['NativeInteger_encode_uper', 'INTEGER_encode_uper', 'NativeInteger_decode_uper', 'INTEGER_decode_uper'],
      unwind=66, cbmc=IUC + ['--no-malloc-may-fail'], bound='every long triple (v, lb, ub) whose range ub-lb needs exactly %d bits, extensible or not' % _rb,
      min_props=100, timeout=900, tier='experimental', **IU)
O(id='NativeInteger_uper.unconstrained', props=['C01', 'C02', 'C13'], kind='width', entry='h_NativeInteger_uper_unconstrained',
  functions=['NativeInteger_encode_uper', 'INTEGER_encode_uper', 'NativeInteger_decode_uper', 'INTEGER_decode_uper'],
  unwind=26, cbmc=IUC + ['--no-malloc-may-fail'], bound='every long value', min_props=100, timeout=1200, tier='experimental', **IU)
O(id='NativeInteger_decode_uper.any', props=['C04', 'C14'], kind='bounded', entry='h_NativeInteger_decode_uper_any', tier='experimental',
  functions=['NativeInteger_decode_uper', 'INTEGER_decode_uper'], unwind=26,
  cbmc=IUC + ['--malloc-may-fail', '--malloc-fail-null', '--memory-leak-check'],
  bound='every input of at most 96 bits, every constraint record (flags 0..7, range_bits -1..64, any bounds), signed/unsigned; every allocation may fail',
  min_props=100, timeout=1200, **IU)

# ---------------------------------------------------------------- C19: static state scan
O(id='static_state_scan', props=['C19'], kind='static', harness='tools/static_scan.py', entry='main', script='tools/static_scan.py',
  script_args=['c19_static_allow.json'], functions=[], no_canary=True,
  bound='whole skeleton library (all functions in skeletons/*.c): direct writes to / address escapes of static-lifetime non-const objects, by goto-program text; writes through pointers are not tracked')

# ---------------------------------------------------------------- C08: constraints
CT = dict(harness='harness/h_constraints.c', units=[SK + f for f in ('constraints.c', 'PrintableString.c', 'NumericString.c', 'VisibleString.c', 'IA5String.c')])
for _w, _n in ((0, 'PrintableString'), (1, 'NumericString'), (2, 'VisibleString'), (3, 'IA5String')):
    O(id=_n + '_constraint.sound', props=['C08', 'C04'], entry='h_alphabet_sound', defines=['VF_WHICH=%d' % _w], functions=[_n + '_constraint'],
      proves=[_n + '_constraint'], loops=True, min_props=40, timeout=600, harness='harness/h_alphabet.c', units=[SK + _n + '.c'])
    O(id=_n + '_constraint.exact6', props=['C08'], kind='bounded', entry='h_alphabet_exact', defines=['VF_WHICH=%d' % _w], functions=[_n + '_constraint'],
      unwind=8, bound='strings of at most 6 characters, every character value', min_props=20, **CT)
O(id='asn_check_constraints.errbuf', props=['C08'], kind='width', entry='h_check_constraints_errbuf', functions=['asn_check_constraints', '_asn_i_ctfailcb'],
  proves=['asn_check_constraints', '_asn_i_ctfailcb'], stubs=['stubs/vsnprintf.c'], unwind=8,
  bound='every error buffer length 0..24 (the buffer object has exactly that size); vsnprintf result arbitrary (including negative)',
  trusted=['vsnprintf: stub with the C99 contract only (stubs/vsnprintf.c)'], min_props=20, **CT)
O(id='BIT_STRING_constraint', props=['C08'], kind='width', entry='h_BIT_STRING_constraint', functions=['BIT_STRING_constraint'], proves=['BIT_STRING_constraint'],
  unwind=4, bound='every (size, bits_unused, buf) combination (loop-free)', min_props=10, harness='harness/h_bitstring_constraint.c', units=[SK + 'BIT_STRING.c'])

# ---------------------------------------------------------------- C09: constraint interval algebra
CR = dict(harness='harness/h_crange.c', units=['libasn1fix/asn1fix_crange.c'], incdirs=['libasn1fix', 'libasn1parser', 'libasn1common', 'libasn1print', 'libasn1compiler'],
          defines=['HAVE_CONFIG_H'], native=False)   # asn1c_integer_t = __int128 as in the real build
O(id='_edge_compare', props=['C09'], kind='width', entry='h_edge_compare', functions=['_edge_compare'], proves=['_edge_compare'], unwind=2,
  bound='all triples of edges, 128-bit values (loop-free)', min_props=5, **CR)
O(id='_range_overlap', props=['C09'], kind='width', entry='h_range_overlap', functions=['_range_overlap'], proves=['_range_overlap'], unwind=2,
  bound='all pairs of well-formed simple ranges, 128-bit values (loop-free)', min_props=5, **CR)
O(id='_range_split', props=['C09'], kind='width', entry='h_range_split', functions=['_range_split', '_range_new', '_range_insert', '_range_partial_sort_elements'],
  proves=['_range_split'], stubs=['stubs/qsort3.c'], unwind=6, cbmc=['--no-malloc-may-fail', '--memory-leak-check'],
  bound='all pairs of well-formed simple ranges with rb inside the intmax_t window, 128-bit values; allocation succeeds (the function asserts on failure)',
  trusted=['qsort: stub (stubs/qsort3.c)'], min_props=30, timeout=900, **CR)

O(id='_range_union.p2', props=['C09', 'C08'], kind='bounded', entry='h_range_union', functions=['_range_union', '_range_remove_element', '_range_compare'],
  stubs=['stubs/qsort3.c'], unwind=6, cbmc=['--no-malloc-may-fail', '--memory-leak-check'],
  bound='a union of two arbitrary simple ranges (128-bit values within +-2^100)', trusted=['qsort: stub (stubs/qsort3.c)'], min_props=30, timeout=900, **dict(CR, defines=['VF_NP=2', 'HAVE_CONFIG_H']))
O(id='_range_union.p3', props=['C09', 'C08'], kind='bounded', entry='h_range_union', functions=['_range_union', '_range_remove_element', '_range_compare'],
  stubs=['stubs/qsort3.c'], unwind=6, cbmc=['--no-malloc-may-fail', '--memory-leak-check'], tier='experimental',
  bound='a union of three arbitrary simple ranges', trusted=['qsort: stub (stubs/qsort3.c)'], min_props=30, timeout=2400, **dict(CR, defines=['VF_NP=3', 'HAVE_CONFIG_H']))
O(id='_range_intersection.p2', props=['C09'], kind='bounded', entry='h_range_intersection2',
  functions=['_range_intersection', '_range_split', '_range_remove_element', '_range_insert'], stubs=['stubs/qsort3.c'], unwind=10,
  cbmc=['--no-malloc-may-fail'], bound='a two-piece parent and a simple operand, 128-bit values within +-2^100, PER rules',
  trusted=['qsort: stub (stubs/qsort3.c)'], min_props=30, timeout=3000, mem_gb=30, tier='experimental', **CR)
O(id='_range_intersection.simple', props=['C09'], kind='bounded', entry='h_range_intersection',
  functions=['_range_intersection', '_range_split', '_range_remove_element', '_range_insert'], stubs=['stubs/qsort3.c'], unwind=8,
  cbmc=['--no-malloc-may-fail', '--memory-leak-check'], bound='two simple (one-interval) operands, 128-bit values, PER rules (is_oer=0, no strict edge check)',
  trusted=['qsort: stub (stubs/qsort3.c)'], min_props=30, timeout=3000, mem_gb=30, tier='experimental', **CR)

# ---------------------------------------------------------------- C20: unber
UB = dict(harness='harness/h_unber.c', units=['asn1-tools/unber/libasn1_unber_tool.c'],
          incdirs=['asn1-tools/unber', 'skeletons', 'libasn1parser', 'libasn1common', 'libasn1fix', 'libasn1print'],
          fp_restrict=[(r'nextChar\)$', ['mem_next']), (r'bytesRead\)$', ['mem_read']), (r'vprintfError\)$', ['err_vprintf']), (r'vprintf\)$', ['out_vprintf'])])
for _p in (0, 1):
    O(id='unber_stream.b4.p%d' % _p, props=['C20', 'C04'], kind='bounded', entry='h_unber_stream', defines=['VF_UNBER_N=4', 'VF_PRETTY=%d' % _p],
      functions=['unber_stream', 'process_deeper', 'print_TL', 'print_V'],
      unwind=7, cbmc=['--unwindset', 'process_deeper:6', '--malloc-may-fail', '--malloc-fail-null', '--memory-leak-check'],
      stubs=['stubs/vsnprintf.c'], bound='every input of at most 4 octets, option -1, pretty printing %s; recursion depth <= 5' % ('on' if _p else 'off'),
      trusted=['snprintf/vsnprintf stub (stubs/vsnprintf.c)'], min_props=100, timeout=3000, tier='experimental', **UB)


# ---------------------------------------------------------------- C06: BIT STRING DER
BS = dict(harness='harness/h_bitstring_der.c', units=[SK + 'OCTET_STRING.c', SK + 'BIT_STRING.c'], fp_restrict=[(r'::cb$', ['vf_cb'])])
O(id='BIT_STRING_encode_der.canon', props=['C02', 'C06', 'C07'], kind='bounded', entry='h_BIT_STRING_encode_der', functions=['OCTET_STRING_encode_der', 'der_write_tags'],
  unwind=14, bound='bit strings of 1..4 octets, 0..7 unused bits, arbitrary garbage in the unused bits', min_props=50, timeout=600, **BS)
O(id='BIT_STRING_encode_der.malformed', props=['C07'], kind='bounded', entry='h_BIT_STRING_encode_der_malformed', functions=['OCTET_STRING_encode_der'],
  unwind=14, bound='bit strings of 1..4 octets, every int value of bits_unused', min_props=50, timeout=600, **BS)

# ---------------------------------------------------------------- OER primitives / open type
OP = dict(harness='harness/h_oer_prim.c', units=[SK + 'oer_decoder.c', SK + 'oer_encoder.c', SK + 'oer_support.c'], fp_restrict=[(r'::cb$', ['vf_cb'])],
          link=[SK + f for f in ('asn_codecs_prim.c', 'ber_decoder.c', 'der_encoder.c', 'ber_tlv_tag.c', 'ber_tlv_length.c')])
O(id='oer_open_type_skip', props=['C03', 'C04', 'C05'], kind='bounded', entry='h_oer_open_type_skip', functions=['oer_open_type_skip'],
  unwind=14, bound='every input of at most 12 octets', min_props=30, **OP)
O(id='oer_decode_primitive.b12', props=['C04', 'C05', 'C14', 'C15'], kind='bounded', entry='h_oer_decode_primitive', functions=['oer_decode_primitive', 'ASN__PRIMITIVE_TYPE_free'],
  unwind=14, cbmc=['--malloc-may-fail', '--malloc-fail-null', '--memory-leak-check'], bound='every input of at most 12 octets, fresh or re-used structure; every allocation may fail', min_props=50, **OP)
O(id='oer_primitive_roundtrip', props=['C01', 'C02', 'C07'], kind='bounded', entry='h_oer_primitive_roundtrip', functions=['oer_encode_primitive', 'oer_decode_primitive', 'oer_serialize_length'],
  unwind=18, bound='contents of at most 6 octets; callback may fail at any call', min_props=50, **OP)

# ---------------------------------------------------------------- SET OF over UPER: element count / bomb guard
for _w in (0, 1, 8):
    O(id='SET_OF_decode_uper.n201.w%d' % _w, props=['C01', 'C03', 'C15'], kind='bounded', entry='h_SET_OF_decode_uper', harness='harness/h_setof_uper.c',
      units=[SK + 'constr_SET_OF.c', SK + 'asn_SET_OF.c'], functions=['SET_OF_decode_uper', 'asn_set_add'], defines=['VF_W=%d' % _w],
      fp_restrict=[(r'uper_decoder\)$', ['stub_elem_uper']), (r'free_struct\)$', ['stub_free'])],
      unwind=203, cbmc=['--unwindset', 'asn_get_few_bits:4', '--no-malloc-may-fail'],
      bound='one list of exactly 201 elements of %d bits each (stub element decoder that, like most primitive UPER decoders, reports consumed = 0)' % _w,
      min_props=50, timeout=1500)

# ---------------------------------------------------------------- OER CHOICE tag
OT = dict(harness='harness/h_oer_tag.c', units=[SK + 'constr_CHOICE_oer.c'], fp_restrict=[(r'::cb$', ['vf_cb'])])
O(id='oer_put_tag', props=['C01', 'C02', 'C07'], kind='width', entry='h_oer_put_tag', functions=['oer_put_tag', 'oer_fetch_tag'], proves=['oer_put_tag'],
  unwind=14, bound='all tags with numbers below 2^30; loops bounded by 5 octets; callback may fail', min_props=30, **OT)
O(id='oer_fetch_tag.b10', props=['C03', 'C04', 'C05'], kind='bounded', entry='h_oer_fetch_tag', functions=['oer_fetch_tag'],
  unwind=12, bound='every input of at most 10 octets and every cut point', min_props=20, **OT)

# ---------------------------------------------------------------- INTEGER over OER
IO = dict(harness='harness/h_integer_oer.c', units=[SK + 'INTEGER_oer.c', SK + 'INTEGER.c', SK + 'oer_support.c'], fp_restrict=[(r'::cb$', ['vf_cb'])])
O(id='INTEGER_oer.roundtrip', props=['C01', 'C02', 'C06', 'C07', 'C13'], kind='width', entry='h_INTEGER_oer', functions=['INTEGER_encode_oer', 'INTEGER_decode_oer'],
  proves=['INTEGER_encode_oer'], unwind=14, cbmc=['--no-malloc-may-fail'],
  bound='every intmax_t value with 0..2 redundant leading octets, every layout {width 0,1,2,4,8} x {signed, non-negative}', min_props=50, timeout=900, **IO)
O(id='NativeInteger_oer', props=['C01', 'C02', 'C13'], kind='width', entry='h_NativeInteger_oer', functions=['NativeInteger_encode_oer', 'NativeInteger_decode_oer', 'INTEGER_encode_oer'],
  unwind=14, cbmc=['--no-malloc-may-fail'], bound='every 64-bit native value, signed and unsigned fields, every layout width 0,1,2,4,8', min_props=50, timeout=900, **IO)
O(id='INTEGER_decode_oer.b12', props=['C04', 'C05', 'C14', 'C15'], kind='bounded', entry='h_INTEGER_decode_oer', functions=['INTEGER_decode_oer'],
  unwind=14, cbmc=['--malloc-may-fail', '--malloc-fail-null', '--memory-leak-check'],
  bound='every input of at most 12 octets, width 0..8, both signs, fresh or re-used structure; every allocation may fail', min_props=50, timeout=900, **IO)

TE2 = 'bounded stand-in: [sign] + {MAX/10-1, MAX/10, MAX/10+1} + at most 2 arbitrary characters (27 concrete prefixes x 2 symbolic characters): the neighbourhood of the overflow boundary'
O(id='asn_strtoumax_lim.edge2', props=['C16'], kind='bounded', entry='h_strto_edge', functions=['asn_strtoumax_lim'], defines=['VF_EDGE_UNSIGNED', 'VF_MAXTXT=26'],
  unwind=30, bound=TE2, min_props=30, timeout=900, **INT_SAT)
O(id='asn_strtoimax_lim.edge2', props=['C16'], kind='bounded', entry='h_strto_edge', functions=['asn_strtoimax_lim'], defines=['VF_MAXTXT=26'],
  unwind=30, bound=TE2, min_props=30, timeout=900, **INT_SAT)

# ---------------------------------------------------------------- BIT STRING over OER
O(id='BIT_STRING_encode_oer', props=['C02', 'C06', 'C07'], kind='bounded', entry='h_BIT_STRING_encode_oer', harness='harness/h_bitstring_oer.c',
  units=[SK + 'BIT_STRING_oer.c', SK + 'oer_support.c'], functions=['BIT_STRING_encode_oer'], fp_restrict=[(r'::cb$', ['vf_cb'])],
  unwind=18, bound='bit strings of 0..4 octets, every int bits_unused, size constraint -1..64 bits, with/without buffer; callback may fail at any call',
  min_props=50, timeout=600)

# ---------------------------------------------------------------- compiler: PER / OER layout numbers (hook)
EC = dict(harness='harness/h_emit_constraints.c', units=['libasn1compiler/asn1c_C.c'],
          incdirs=['libasn1compiler', 'libasn1fix', 'libasn1parser', 'libasn1common', 'libasn1print', 'skeletons'], defines=['HAVE_CONFIG_H'],
          allow_no_body=['asn1c_compiled_output', 'expr_get_type', 'asn1p_itoa', 'PER_FROM_alphabet_characters', 'asn1c_get_type', 'asn1f_printable_value'],
          native=False)
O(id='emit_single_member_PER_constraint', props=['C02', 'C09'], kind='width', entry='h_emit_PER_constraint', functions=['emit_single_member_PER_constraint'],
  proves=['emit_single_member_PER_constraint'], unwind=131, bound='every value range [lb, ub] with -2^100 < lb <= ub < 2^100, extensible or not (loops bounded by the 128-bit integer width)',
  trusted=['hook VLM_ASN1C_VERIF: ghost copies of rbits/ebits (add-only, /repo commit 91bef07)', 'OUT()/expr_get_type: no body (arbitrary results)'], min_props=20, timeout=900, **EC)
O(id='emit_single_member_OER_constraint_value', props=['C02', 'C09'], kind='width', entry='h_emit_OER_constraint_value', functions=['emit_single_member_OER_constraint_value'],
  proves=['emit_single_member_OER_constraint_value'], unwind=4, bound='every pair of 128-bit bounds lb <= ub (loop-free)',
  trusted=['hook VLM_ASN1C_VERIF: ghost copies of width/positive', 'OUT()/expr_get_type: no body'], min_props=10, timeout=600, **EC)

O(id='INTEGER_compare.b3', props=['C04', 'C01'], kind='bounded', entry='h_INTEGER_compare', functions=['INTEGER_compare'], unwind=6,
  cbmc=['--no-malloc-may-fail'], bound='every pair of INTEGERs of 0..3 octets (exact-size heap buffers, NULL allowed for empty)', min_props=30, **INT_SAT)

# ---------------------------------------------------------------- C18: open types (runtime half)
OTY = dict(harness='harness/h_open_type.c', units=[SK + 'OPEN_TYPE.c', SK + 'OPEN_TYPE_oer.c', SK + 'constr_CHOICE.c'],
           fp_restrict=[(r'type_selector\)$', ['selector']), (r'ber_decoder\)$', ['stub_ber']), (r'oer_decoder\)$', ['stub_oer', 'stub_oer2']), (r'free_struct\)$', ['stub_free', 'choice_free', 'stub_free2'])])
O(id='OPEN_TYPE_ber_get', props=['C18', 'C14', 'C04'], kind='bounded', entry='h_OPEN_TYPE_ber_get', functions=['OPEN_TYPE_ber_get', 'CHOICE_variant_set_presence', '_fetch_present_idx', '_set_present_idx'],
  unwind=20, cbmc=['--no-malloc-may-fail'], bound='one open type member (inline CHOICE of two variants), selector and selected type are recording stubs; every selector result, every inner decoder outcome',
  min_props=50, timeout=600, **OTY)
O(id='OPEN_TYPE_oer_get', props=['C18', 'C04'], kind='bounded', entry='h_OPEN_TYPE_oer_get', functions=['OPEN_TYPE_oer_get', 'oer_open_type_get', 'CHOICE_variant_set_presence'],
  unwind=20, cbmc=['--no-malloc-may-fail'], bound='as OPEN_TYPE_ber_get, input of at most 16 octets', min_props=50, timeout=600, **OTY)

# ---------------------------------------------------------------- BOOLEAN
BO = dict(harness='harness/h_boolean.c', units=[SK + 'BOOLEAN.c'], fp_restrict=[(r'::cb$|\.output\)$', ['vf_cb'])])
O(id='BOOLEAN_roundtrip', props=['C01', 'C02', 'C13'], kind='width', entry='h_BOOLEAN_roundtrip', functions=['BOOLEAN_encode_der', 'BOOLEAN_decode_ber', 'BOOLEAN_encode_oer', 'BOOLEAN_decode_oer', 'BOOLEAN_encode_uper', 'BOOLEAN_decode_uper', 'BOOLEAN_compare'],
  proves=['BOOLEAN_encode_der', 'BOOLEAN_encode_oer', 'BOOLEAN_encode_uper'], unwind=18, cbmc=['--unwindset', 'asn_put_few_bits:3,asn_get_few_bits:4', '--no-malloc-may-fail'],
  bound='every int value of a BOOLEAN_t, three transfer syntaxes (loop bounds: 1 contents octet)', min_props=50, timeout=600, **BO)
O(id='BOOLEAN_decode_ber.b8', props=['C03', 'C04', 'C05'], kind='bounded', entry='h_BOOLEAN_decode_ber', functions=['BOOLEAN_decode_ber'],
  unwind=18, bound='every input of at most 8 octets', min_props=50, timeout=600, **BO)

# ---------------------------------------------------------------- generic SET OF container
O(id='asn_set_ops.n6', props=['C14', 'C15', 'C04'], kind='bounded', tier='experimental', entry='h_asn_set_ops', harness='harness/h_set_of.c', units=[SK + 'asn_SET_OF.c'],
  functions=['asn_set_add', 'asn_set_del', 'asn_set_empty'], fp_restrict=[(r'free\)$', ['elem_free'])], unwind=10,
  cbmc=['--malloc-may-fail', '--malloc-fail-null', '--memory-leak-check'], bound='every sequence of at most 6 add/delete operations, every allocation may fail',
  min_props=40, timeout=600)

# ---------------------------------------------------------------- OCTET STRING over OER
OSO = dict(harness='harness/h_octet_string_oer.c', units=[SK + 'OCTET_STRING_oer.c', SK + 'oer_support.c'], fp_restrict=[(r'::cb$', ['vf_cb'])])
O(id='OCTET_STRING_oer.roundtrip', props=['C01', 'C02', 'C07', 'C08'], kind='bounded', entry='h_OCTET_STRING_oer_roundtrip', functions=['OCTET_STRING_encode_oer', 'OCTET_STRING_decode_oer'],
  unwind=14, cbmc=['--no-malloc-may-fail'], bound='strings of at most 8 octets, every subvariant (8/16/32-bit units), no or fixed SIZE 0..8; callback may fail', min_props=50, timeout=600, **OSO)
O(id='OCTET_STRING_decode_oer.b12', props=['C04', 'C05', 'C14', 'C15'], kind='bounded', entry='h_OCTET_STRING_decode_oer', functions=['OCTET_STRING_decode_oer'],
  unwind=14, cbmc=['--malloc-may-fail', '--malloc-fail-null', '--memory-leak-check'], bound='every input of at most 12 octets, every subvariant, SIZE -1..16, fresh or re-used structure; allocation may fail',
  min_props=50, timeout=600, **OSO)

O(id='ber_skip_length.b6', props=['C03', 'C04', 'C05', 'C15'], kind='bounded', entry='h_ber_skip_length', functions=['ber_skip_length', 'ber_fetch_tag', 'ber_fetch_length'], tier='experimental',
  unwind=8, cbmc=['--unwindset', 'ber_skip_length:5'], bound='every input of at most 6 octets and every cut point; nesting depth <= 4 (recursion unwound with unwinding assertions)',
  trusted=['ASN__STACK_OVERFLOW_CHECK evaluated with max_stack_size 0 (disabled)'], min_props=30, timeout=900, **BL)

# ---------------------------------------------------------------- C06: SET OF member ordering
O(id='_el_buf_cmp', props=['C06'], kind='bounded', entry='h_el_buf_cmp', harness='harness/h_el_buf_cmp.c', units=[SK + 'constr_SET_OF.c'],
  functions=['_el_buf_cmp'], unwind=8, bound='every triple of encoded members of at most 4 octets with 0..7 unused bits', min_props=30, timeout=600)

# ---------------------------------------------------------------- OCTET STRING / BIT STRING over BER
for _b, _n in ((0, 'OCTET_STRING'), (1, 'BIT_STRING')):
    O(id=_n + '_decode_ber.b7', props=['C04', 'C03', 'C14', 'C15'], kind='bounded', entry='h_OCTET_STRING_decode_ber', harness='harness/h_octet_string_ber.c',
      units=[SK + 'OCTET_STRING.c', SK + 'BIT_STRING.c'], functions=['OCTET_STRING_decode_ber', 'OCTET_STRING_free'], defines=['VF_BITS=%d' % _b],
      unwind=10, cbmc=['--unwindset', 'ber_fetch_length.0:9,ber_fetch_tag.0:9', '--malloc-may-fail', '--malloc-fail-null', '--memory-leak-check'],
      bound='every input of at most 7 octets (primitive, constructed, indefinite, nested); every allocation may fail', min_props=100, timeout=2400, mem_gb=24, tier='experimental')

O(id='oer_open_type_get', props=['C14', 'C18', 'C04'], kind='bounded', entry='h_oer_open_type_get', functions=['oer_open_type_get'],
  unwind=20, cbmc=['--malloc-may-fail', '--malloc-fail-null', '--memory-leak-check'], bound='input of at most 12 octets, inner decoder outcome arbitrary, value storage provided by the caller or allocated by the inner decoder',
  min_props=40, timeout=600, **OTY)

# ---------------------------------------------------------------- UPER open type writer
O(id='uper_open_type_put.leak', props=['C14', 'C07'], kind='bounded', entry='h_uper_open_type_put', harness='harness/h_per_opentype.c',
  units=[SK + 'per_opentype.c', SK + 'per_encoder.c'], functions=['uper_open_type_put', 'uper_encode_to_new_buffer', 'encode_dyn_cb'],
  fp_restrict=[(r'uper_encoder\)$', ['stub_uper']), (r'\.output\)$', ['vf_cb', 'encode_dyn_cb', 'ignore_output'])],
  stubs=['stubs/realloc64.c', 'stubs/memcpy16.c'], unwind=8, cbmc=['--unwindset', 'asn_put_few_bits:3,asn_put_many_bits.0:3,realloc.0:66,memcpy.0:18', '--malloc-may-fail', '--malloc-fail-null', '--memory-leak-check'],
  bound='an open type whose contents are 0..8 bits, written at the end of the 32-octet scratch space; callback may fail at any call; every allocation may fail',
  min_props=50, timeout=900, tier='experimental')

# ---------------------------------------------------------------- UTF8String
O(id='UTF8String.b6', props=['C08', 'C04'], kind='bounded', entry='h_UTF8String', harness='harness/h_utf8.c', units=[SK + 'UTF8String.c'], tier='experimental',
  functions=['UTF8String__process', 'UTF8String_length', 'UTF8String_constraint', 'UTF8String_to_wcs'], unwind=9,
  bound='every octet string of at most 6 octets, destination of 0..4 code points', min_props=40, timeout=600)

# ---------------------------------------------------------------- NULL through the encoder API
O(id='NULL_asn_encode', props=['C07', 'C02'], kind='bounded', entry='h_NULL_asn_encode', harness='harness/h_null.c', units=[SK + 'NULL.c', SK + 'asn_application.c'],
  functions=['NULL_encode_der', 'NULL_encode_oer', 'asn_encode', 'asn_encode_internal', 'der_write_tags'],
  link=[SK + f for f in ('asn_application.c', 'NULL.c', 'BOOLEAN.c', 'der_encoder.c', 'oer_encoder.c', 'per_encoder.c', 'xer_encoder.c', 'asn_bit_data.c', 'per_support.c', 'oer_support.c', 'ber_tlv_tag.c', 'ber_tlv_length.c', 'asn_codecs_prim.c', 'ber_decoder.c', 'asn_internal.c')],
  fp_restrict=[(r'callback_failure_catch_cb::1::key\.callback', ['vf_cb']), (r'::cb$|consume_bytes$|::callback$', ['callback_failure_catch_cb']),
               (r'der_encoder\)$', ['NULL_encode_der']), (r'oer_encoder\)$', ['NULL_encode_oer'])],
  unwind=10, bound='the NULL type through asn_encode for DER and OER, callback failing at any call', min_props=30, timeout=600)

# ---------------------------------------------------------------- real primitive encoders through the API
ALLSK = [SK + f for f in ('asn_application.c', 'NULL.c', 'BOOLEAN.c', 'NativeInteger.c', 'NativeInteger_oer.c', 'INTEGER.c', 'INTEGER_oer.c', 'OCTET_STRING.c', 'OCTET_STRING_oer.c',
         'BIT_STRING.c', 'BIT_STRING_oer.c', 'OBJECT_IDENTIFIER.c', 'der_encoder.c', 'oer_encoder.c', 'per_encoder.c', 'xer_encoder.c', 'asn_bit_data.c', 'per_support.c',
         'per_opentype.c', 'oer_support.c', 'oer_decoder.c', 'ber_tlv_tag.c', 'ber_tlv_length.c', 'asn_codecs_prim.c', 'ber_decoder.c', 'asn_internal.c', 'constr_TYPE.c')]
for _t, _tn in ((0, 'BOOLEAN'), (1, 'NativeInteger'), (2, 'INTEGER'), (3, 'OCTET_STRING'), (4, 'BIT_STRING'), (5, 'OBJECT_IDENTIFIER')):
    for _sy, _sn in (('ATS_DER', 'DER'), ('ATS_CANONICAL_OER', 'OER'), ('ATS_UNALIGNED_CANONICAL_PER', 'UPER')):
        O(id='api_%s.%s' % (_tn, _sn), props=['C07'], kind='bounded', entry='h_type_asn_encode', harness='harness/h_type_api.c', units=[SK + 'asn_application.c'],
          defines=['VF_TYPE=%d' % _t, 'VF_SYN=%s' % _sy], functions=['asn_encode', '%s encoder (%s)' % (_tn, _sn)], link=ALLSK, stubs=['stubs/bsearch.c'],
          fp_restrict=[(r'callback_failure_catch_cb::1::key\.callback', ['vf_cb'])],
          unwind=12, cbmc=['--unwindset', 'asn_put_few_bits:3,uper_put_constrained_whole_number_u:4', '--no-malloc-may-fail'],
          bound='values of at most 3 octets (4 for the native integer), callback failing at any of the first 5 calls', min_props=30, timeout=900,
          tier='experimental' if (_sn == 'UPER' and _tn not in ('BOOLEAN', 'OBJECT_IDENTIFIER')) else 'quick')

# ---------------------------------------------------------------- NativeReal over DER
O(id='NativeReal_encode_der', props=['C02', 'C13', 'C14'], kind='width', entry='h_NativeReal_encode_der', harness='harness/h_nativereal.c',
  units=[SK + 'NativeReal.c', SK + 'REAL.c'], functions=['NativeReal_encode_der', 'asn_double2REAL', 'der_encode_primitive'], proves=['NativeReal_encode_der'],
  stubs=['stubs/math.c'], fp_restrict=[(r'::cb$', ['vf_cb']), (r'free_struct\)$', ['ASN__PRIMITIVE_TYPE_free'])], unwind=18,
  cbmc=['--partial-loops', '--unwindset', 'asn_double2REAL.1:7,ber_fetch_tag.0:8,ber_fetch_length.0:10', '--no-malloc-may-fail', '--memory-leak-check'],
  expected_fail=[r'asn_double2REAL\.unwind\.1'], bound='all 2^64 bit patterns of a double',
  trusted=['ilogb / isfinite stubs (stubs/math.c)', 'asn_double2REAL little-endian gather loop modelled as exactly 7 iterations'], min_props=100, timeout=900)

# ---------------------------------------------------------------- ENUMERATED over UPER
O(id='NativeEnumerated_uper', props=['C01', 'C02', 'C08', 'C13'], kind='bounded', entry='h_NativeEnumerated_uper', harness='harness/h_enumerated_uper.c',
  units=[SK + 'NativeEnumerated.c'], functions=['NativeEnumerated_encode_uper', 'NativeEnumerated_decode_uper'], stubs=['stubs/bsearch.c'],
  fp_restrict=[(r'\.output\)$', ['vf_cb']), (r'compar$', ['NativeEnumerated__compar_value2enum'])],
  unwind=18, cbmc=['--unwindset', 'asn_put_few_bits:3,asn_get_few_bits:4', '--no-malloc-may-fail'],
  bound='one enumeration with four values {0,1,5,100}, with and without an extension marker after the second; every long value',
  trusted=['bsearch: stub (stubs/bsearch.c)'], min_props=50, timeout=900)

# every proof-kind obligation that enforces a contract with dfcc also proves that function's frame (assigns clause): C19
# ---------------------------------------------------------------- constructed codecs over stub members
STUBM = 'member type is a harness stub (2-octet restartable value: RC_WMORE until complete, RC_FAIL on 0xFF); descriptor laid out by hand in the shape asn1c emits'
SQO = dict(harness='harness/h_seq_oer.c', units=[SK + 'constr_SEQUENCE_oer.c', SK + 'constr_SEQUENCE.c'],
           link=[SK + 'constr_SEQUENCE.c', SK + 'asn_bit_data.c', SK + 'oer_support.c', SK + 'oer_decoder.c'],
           fp_restrict=[(r'oer_decoder\)$', ['sv_oer']), (r'free_struct\)$', ['sv_free'])], trusted=[STUBM, 'stubs/memcpy16.c replaces the CBMC memcpy model'], stubs=['stubs/memcpy16.c'])
for _e, _n, _u in ((0, 8, 11), (1, 10, 13), (2, 11, 14)):
    _sq = SQO if _e == 0 else dict(SQO, stubs=['stubs/memcpy16.c', 'stubs/calloc_fixed96.c'], trusted=[STUBM, 'stubs/memcpy16.c', 'stubs/calloc_fixed96.c: every calloc block is 96 bytes (writes into the slack past the requested size are not detected here)'])
    _bd = 'SEQUENCE { a, b OPTIONAL, c%s } of stub members; every input of at most %d octets%s' % (', ..., d' if _e else '', _n, ' whose extension-addition bitmap is one octet' if _e == 1 else ' with the fixed frame: extension bit set, b absent, bitmap of 2 bits (d, and one addition unknown here)' if _e == 2 else '')
    O(id='SEQUENCE_decode_oer.e%d' % _e, props=['C04', 'C14', 'C03'], kind='bounded', tier='experimental' if _e else 'quick', entry='h_SEQUENCE_decode_oer', functions=['SEQUENCE_decode_oer', 'SEQUENCE_free', 'asn_bit_data_new_contiguous', 'asn_get_few_bits', 'oer_open_type_get', 'oer_open_type_skip', 'oer_fetch_length'],
      defines=['VF_EXT=%d' % _e, 'VF_N=%d' % _n], unwind=_u, cbmc=['--unwindset', 'asn_get_few_bits:3,memcpy.0:18' + (',calloc.0:98' if _e else ''), '--malloc-may-fail', '--malloc-fail-null', '--memory-leak-check'],
      bound=_bd + ' in an exact-size heap buffer; every allocation may fail', min_props=80, timeout=1500, mem_gb=30, **_sq)
    O(id='SEQUENCE_decode_oer.chunk2.e%d' % _e, props=['C05'], kind='bounded', tier='experimental' if _e else 'quick', entry='h_SEQUENCE_decode_oer_chunked', functions=['SEQUENCE_decode_oer', 'asn_get_few_bits', 'asn_get_undo', 'oer_open_type_get', 'oer_open_type_skip'],
      defines=['VF_EXT=%d' % _e, 'VF_N=%d' % _n], unwind=_u, cbmc=['--unwindset', 'asn_get_few_bits:3,memcpy.0:18' + (',calloc.0:98' if _e else ''), '--no-malloc-may-fail'],
      bound=_bd + '; every split point k (two chunks)', min_props=80, timeout=1500, mem_gb=30, **_sq)

SFO = dict(harness='harness/h_setof_oer.c', units=[SK + 'constr_SET_OF_oer.c', SK + 'constr_SET_OF.c', SK + 'asn_SET_OF.c'],
           link=[SK + 'constr_SET_OF.c', SK + 'asn_SET_OF.c', SK + 'oer_support.c'],
           fp_restrict=[(r'oer_decoder\)$', ['sv_oer']), (r'free_struct\)$', ['sv_free'])], trusted=[STUBM, 'stubs/realloc64.c replaces the CBMC realloc model'], stubs=['stubs/realloc64.c'])
O(id='SET_OF_decode_oer.b9', props=['C04', 'C14', 'C15'], kind='bounded', entry='h_SET_OF_decode_oer', functions=['SET_OF_decode_oer', 'oer_fetch_quantity', 'asn_set_add', 'SET_OF_free', 'asn_set_empty'],
  defines=['VF_N=9'], unwind=6, cbmc=['--unwindset', 'oer_fetch_length.0:10,oer_fetch_length.1:10,oer_fetch_quantity.0:10,oer_fetch_quantity.1:10,h_SET_OF_decode_oer.0:12,h_SET_OF_decode_oer.1:12,realloc.0:66', '--malloc-may-fail', '--malloc-fail-null', '--memory-leak-check'],
  bound='SET OF stub members; every input of at most 9 octets (a quantity field of up to 8 octets) in an exact-size heap buffer; every allocation may fail', min_props=80, timeout=900, **SFO)
O(id='SET_OF_decode_oer.chunk2', props=['C05'], kind='bounded', tier='thorough', entry='h_SET_OF_decode_oer_chunked', functions=['SET_OF_decode_oer', 'oer_fetch_quantity', 'asn_set_add'],
  defines=['VF_N=8'], unwind=6, cbmc=['--unwindset', 'oer_fetch_length.0:10,oer_fetch_length.1:10,oer_fetch_quantity.0:10,oer_fetch_quantity.1:10,h_SET_OF_decode_oer.0:11,h_SET_OF_decode_oer.1:11,realloc.0:66', '--no-malloc-may-fail'], bound='every split point of every input of at most 8 octets (two chunks)', min_props=80, timeout=1800, mem_gb=24, **SFO)

STUBT = 'member types are harness stubs (primitive TLV with the expected tag and one contents octet, stateless: RC_WMORE with consumed 0 until complete); descriptor laid out by hand in the shape asn1c emits'
SQB = dict(harness='harness/h_seq_ber.c', units=[SK + 'constr_SEQUENCE.c', SK + 'ber_decoder.c', SK + 'ber_tlv_tag.c', SK + 'ber_tlv_length.c'],
           link=[SK + 'ber_decoder.c', SK + 'ber_tlv_tag.c', SK + 'ber_tlv_length.c'], stubs=['stubs/bsearch.c'],
           fp_restrict=[(r'ber_decoder\)$', ['sv_ber']), (r'free_struct\)$', ['sv_free']), (r'compar$', ['_t2e_cmp'])], trusted=[STUBT, 'stubs/bsearch.c'])
for _v, _n, _d in ((0, 11, 'SEQUENCE { a [0] OPTIONAL, b CHOICE OPTIONAL (untagged: tag2el/bsearch path), c [2] }'), (1, 11, 'SEQUENCE { a [0] OPTIONAL, c [2], ..., b CHOICE OPTIONAL }, unknown additions primitive')):
    O(id='SEQUENCE_decode_ber.v%d' % _v, props=['C04', 'C14'], kind='bounded', tier='experimental', entry='h_SEQUENCE_decode_ber',
      functions=['SEQUENCE_decode_ber', 'ber_check_tags', 'ber_fetch_tag', 'ber_fetch_length', 'ber_skip_length', '_t2e_cmp', 'SEQUENCE_free'],
      defines=['VF_V=%d' % _v, 'VF_N=%d' % _n], unwind=9, cbmc=['--unwindset', 'ber_skip_length:2,ber_fetch_tag.0:%d,ber_fetch_length.0:%d,h_SEQUENCE_decode_ber.0:%d,h_SEQUENCE_decode_ber.1:%d,h_SEQUENCE_decode_ber.2:%d' % ((_n + 3,) * 5), '--malloc-may-fail', '--malloc-fail-null', '--memory-leak-check'],
      bound=_d + '; every input of at most %d octets in an exact-size heap buffer; every allocation may fail (does not discharge: SAT back end out of memory, also with one obligation per input length)' % _n, min_props=80, timeout=1800, **SQB)
    O(id='SEQUENCE_decode_ber.chunk2.v%d' % _v, props=['C05', 'C03'], kind='bounded', tier='experimental' if _v else 'thorough', entry='h_SEQUENCE_decode_ber_chunked',
      functions=['SEQUENCE_decode_ber', 'ber_check_tags', 'ber_fetch_tag', 'ber_fetch_length', 'ber_skip_length', '_t2e_cmp'],
      defines=['VF_V=%d' % _v, 'VF_N=%d' % _n], unwind=9, cbmc=['--unwindset', 'ber_skip_length:2,ber_fetch_tag.0:%d,ber_fetch_length.0:%d,h_SEQUENCE_decode_ber_chunked.0:%d,h_SEQUENCE_decode_ber_chunked.1:%d' % ((_n + 3,) * 4), '--no-malloc-may-fail'],
      bound=_d + '; every split point k of every input of at most %d octets (two chunks)' % _n, min_props=80, timeout=1800, **SQB)

SFB = dict(harness='harness/h_setof_ber.c', units=[SK + 'constr_SET_OF.c', SK + 'asn_SET_OF.c', SK + 'ber_decoder.c'],
           link=[SK + 'asn_SET_OF.c', SK + 'ber_decoder.c', SK + 'ber_tlv_tag.c', SK + 'ber_tlv_length.c'], stubs=['stubs/realloc64.c'],
           fp_restrict=[(r'ber_decoder\)$', ['sv_ber']), (r'free_struct\)$', ['sv_free'])], trusted=[STUBT, 'stubs/realloc64.c replaces the CBMC realloc model'])
O(id='SET_OF_decode_ber.b8', props=['C04', 'C14', 'C15'], kind='bounded', entry='h_SET_OF_decode_ber', functions=['SET_OF_decode_ber', 'ber_check_tags', 'ber_fetch_tag', 'ber_fetch_length', 'asn_set_add', 'SET_OF_free', 'asn_set_empty'],
  defines=['VF_N=8'], unwind=5, cbmc=['--unwindset', 'ber_fetch_tag.0:11,ber_fetch_length.0:11,h_SET_OF_decode_ber.0:11,h_SET_OF_decode_ber.1:11,realloc.0:66', '--malloc-may-fail', '--malloc-fail-null', '--memory-leak-check'],
  bound='SET OF stub members; every input of at most 8 octets in an exact-size heap buffer; every allocation may fail', min_props=80, timeout=1800, **SFB)
O(id='SET_OF_decode_ber.chunk2', props=['C05', 'C03'], kind='bounded', tier='thorough', entry='h_SET_OF_decode_ber_chunked', functions=['SET_OF_decode_ber', 'ber_check_tags', 'ber_fetch_tag', 'ber_fetch_length', 'asn_set_add'],
  defines=['VF_N=8'], unwind=5, cbmc=['--unwindset', 'ber_fetch_tag.0:11,ber_fetch_length.0:11,h_SET_OF_decode_ber.0:11,h_SET_OF_decode_ber.1:11,realloc.0:66', '--no-malloc-may-fail'], bound='every split point of every input of at most 8 octets (two chunks)', min_props=80, timeout=1800, mem_gb=24, **SFB)

SQE = dict(harness='harness/h_seq_enc.c', units=[SK + 'constr_SEQUENCE.c', SK + 'constr_SEQUENCE_oer.c', SK + 'der_encoder.c', SK + 'oer_encoder.c'],
           link=[SK + 'constr_SEQUENCE.c', SK + 'der_encoder.c', SK + 'ber_tlv_tag.c', SK + 'ber_tlv_length.c', SK + 'asn_bit_data.c', SK + 'oer_encoder.c', SK + 'oer_support.c'],
           fp_restrict=[(r'der_encoder\)$', ['sv_der']), (r'oer_encoder\)$', ['sv_oer']), (r'default_value_cmp\)$', ['d_default_cmp']), (r'::cb$|\.output\)$', ['vf_cb', 'oer__count_bytes'])],
           trusted=['member type is a harness stub (DER: <tag> 01 v0, OER: v0 v1; v0 = 0xFF cannot be encoded); descriptor laid out by hand in the shape asn1c emits'])
O(id='SEQUENCE_encode_der', props=['C02', 'C06', 'C07'], kind='bounded', entry='h_SEQUENCE_encode_der', functions=['SEQUENCE_encode_der', 'der_write_tags', 'der_write_TL'],
  defines=['VF_CB_CAP=20'], unwind=22, cbmc=['--no-malloc-may-fail'], bound='SEQUENCE { a, b OPTIONAL, c, ..., d DEFAULT, e OPTIONAL } of stub members: every value and presence combination, every callback failure point', min_props=60, timeout=900, **SQE)
O(id='SEQUENCE_encode_oer', props=['C02', 'C06', 'C07'], kind='bounded', entry='h_SEQUENCE_encode_oer', functions=['SEQUENCE_encode_oer', 'asn_put_few_bits', 'asn_put_aligned_flush', 'oer_open_type_put', 'oer_serialize_length'],
  defines=['VF_CB_CAP=20'], unwind=22, cbmc=['--no-malloc-may-fail'], bound='as SEQUENCE_encode_der, callback never fails', min_props=60, timeout=900, **SQE)

for _c in (0, 1, 2, 3):
  O(id='SET_OF_encode_der.n%d' % _c, props=['C02', 'C06', 'C07', 'C14'], kind='bounded', entry='h_SET_OF_encode_der', harness='harness/h_setof_enc.c',
    units=[SK + 'constr_SET_OF.c', SK + 'der_encoder.c'], link=[SK + 'asn_SET_OF.c', SK + 'der_encoder.c', SK + 'ber_tlv_tag.c', SK + 'ber_tlv_length.c'],
    functions=['SET_OF_encode_der', 'SET_OF__encode_sorted', 'SET_OF__encode_sorted_free', '_el_addbytes', '_el_buf_cmp', 'der_write_tags'],
    stubs=['stubs/qsort_gen.c', 'stubs/realloc64.c', 'stubs/memcpy16.c'], defines=['VF_CB_CAP=16', 'VF_COUNT=%d' % _c],
    fp_restrict=[(r'der_encoder\)$', ['sv_der']), (r'::cb$', ['vf_cb', '_el_addbytes']), (r'compar$', ['_el_buf_cmp'])],
    unwind=18, cbmc=['--unwindset', 'realloc.0:66,qsort.0:66', '--malloc-may-fail', '--malloc-fail-null', '--memory-leak-check'],
    bound='lists of exactly %d stub elements' % _c + '  (encodings of 3 or 4 octets, delivered in two chunks); every order, every callback failure point, every allocation may fail',
    trusted=['element type is a harness stub', 'stubs/qsort_gen.c, stubs/realloc64.c, stubs/memcpy16.c'], min_props=60, timeout=900)

SQU = dict(harness='harness/h_seq_uper.c', units=[SK + 'constr_SEQUENCE.c', SK + 'per_support.c', SK + 'asn_bit_data.c'],
           link=[SK + 'per_support.c', SK + 'asn_bit_data.c'], defines=['VF_CB_CAP=8'],
           fp_restrict=[(r'uper_encoder\)$', ['sv_enc']), (r'uper_decoder\)$', ['sv_dec']), (r'free_struct\)$', ['sv_free']), (r'default_value_cmp\)$', ['c_default_cmp']), (r'default_value_set\)$', ['c_default_set']), (r'\.output\)$|->output\)$', ['vf_cb'])],
           trusted=['member type is a harness stub (8 bits); descriptor laid out by hand in the shape asn1c emits'])
O(id='SEQUENCE_decode_uper.b6', props=['C03', 'C04', 'C14'], kind='bounded', entry='h_SEQUENCE_decode_uper', functions=['SEQUENCE_decode_uper', 'SEQUENCE_free', 'per_get_few_bits', 'per_get_many_bits'],
  unwind=10, cbmc=['--unwindset', 'asn_get_few_bits:4', '--malloc-may-fail', '--malloc-fail-null', '--memory-leak-check'],
  bound='SEQUENCE { a, b OPTIONAL, c DEFAULT, e } of 8-bit stub members; every bit string of at most 48 bits at every bit offset 0..7; every allocation may fail', min_props=60, timeout=900, **SQU)
O(id='SEQUENCE_uper_roundtrip', props=['C01', 'C02', 'C06'], kind='bounded', entry='h_SEQUENCE_uper_roundtrip', functions=['SEQUENCE_encode_uper', 'SEQUENCE_decode_uper', 'per_put_few_bits', 'per_put_aligned_flush'],
  unwind=10, cbmc=['--unwindset', 'asn_get_few_bits:4,asn_put_few_bits:4', '--no-malloc-may-fail'],
  bound='as SEQUENCE_decode_uper.b6: every value and presence combination', min_props=60, timeout=900, **SQU)

CHB = dict(harness='harness/h_choice_ber.c', units=[SK + 'constr_CHOICE.c', SK + 'ber_decoder.c', SK + 'ber_tlv_tag.c', SK + 'ber_tlv_length.c'],
           link=[SK + 'ber_decoder.c', SK + 'ber_tlv_tag.c', SK + 'ber_tlv_length.c'], stubs=['stubs/bsearch.c'],
           fp_restrict=[(r'ber_decoder\)$', ['sv_ber']), (r'free_struct\)$', ['sv_free']), (r'compar$', ['_search4tag'])], trusted=[STUBT, 'stubs/bsearch.c'])
for _v, _d in ((0, 'CHOICE { x [1], y [3] } untagged'), (1, '[0] EXPLICIT CHOICE { x [1], y [3] }')):
    O(id='CHOICE_decode_ber.v%d' % _v, props=['C04', 'C14'], kind='bounded', entry='h_CHOICE_decode_ber',
      functions=['CHOICE_decode_ber', 'ber_check_tags', 'ber_fetch_tag', 'ber_fetch_length', '_search4tag', 'CHOICE_free', '_set_present_idx', '_fetch_present_idx'],
      defines=['VF_V=%d' % _v, 'VF_N=8'], unwind=11, cbmc=['--malloc-may-fail', '--malloc-fail-null', '--memory-leak-check'],
      bound=_d + ' of stub alternatives; every input of at most 8 octets in an exact-size heap buffer; every allocation may fail', min_props=80, timeout=1200, **CHB)
    O(id='CHOICE_decode_ber.chunk2.v%d' % _v, props=['C05', 'C03'], kind='bounded', entry='h_CHOICE_decode_ber_chunked',
      functions=['CHOICE_decode_ber', 'ber_check_tags', 'ber_fetch_tag', 'ber_fetch_length', '_search4tag'],
      defines=['VF_V=%d' % _v, 'VF_N=8'], unwind=11, cbmc=['--no-malloc-may-fail'],
      bound=_d + ' of stub alternatives; every split point of every input of at most 8 octets (two chunks)', min_props=80, timeout=1200, **CHB)

CW = dict(harness='harness/h_constr_walk.c', units=[SK + 'constr_SEQUENCE.c', SK + 'constr_SET.c', SK + 'constr_SET_OF.c', SK + 'constr_CHOICE.c'],
          link=[SK + 'constr_SEQUENCE.c', SK + 'constr_SET.c', SK + 'constr_SET_OF.c', SK + 'constr_CHOICE.c'],
          fp_restrict=[(r'general_constraints\)$|::constr$', ['type_check', 'memb_check'])], cbmc=['--no-malloc-may-fail'], unwind=6,
          trusted=['member constraint checkers are harness stubs; descriptors laid out by hand in the shape asn1c emits'])
O(id='SEQUENCE_constraint', props=['C08'], kind='bounded', entry='h_SEQUENCE_constraint', functions=['SEQUENCE_constraint', 'SET_constraint'],
  bound='SEQUENCE / SET of 4 members (type-level, member-level, OPTIONAL pointer, type-level): every value and presence combination', min_props=20, **CW)
O(id='SEQUENCE_constraint.absent', props=['C08'], kind='bounded', entry='h_SEQUENCE_constraint_absent', functions=['SEQUENCE_constraint', 'SET_constraint'],
  bound='as SEQUENCE_constraint, mandatory pointer member absent', min_props=20, **CW)
O(id='SET_OF_constraint', props=['C08'], kind='bounded', entry='h_SET_OF_constraint', functions=['SET_OF_constraint'],
  bound='lists of at most 3 elements, element constraint at member or at type level', min_props=20, **CW)
O(id='CHOICE_constraint', props=['C08'], kind='bounded', entry='h_CHOICE_constraint', functions=['CHOICE_constraint', '_fetch_present_idx'],
  bound='CHOICE of 2 alternatives (inline with member-level constraint, pointer with type-level constraint): every presence index 0..3', min_props=20, **CW)

CHO = dict(harness='harness/h_choice_oer.c', units=[SK + 'constr_CHOICE.c', SK + 'constr_CHOICE_oer.c', SK + 'oer_decoder.c', SK + 'oer_encoder.c', SK + 'oer_support.c'],
           link=[SK + 'constr_CHOICE.c', SK + 'oer_decoder.c', SK + 'oer_encoder.c', SK + 'oer_support.c', SK + 'constr_TYPE.c', SK + 'ber_tlv_tag.c'], stubs=['stubs/bsearch.c'],
           fp_restrict=[(r'oer_decoder\)$', ['sv_oer']), (r'oer_encoder\)$', ['sv_enc']), (r'free_struct\)$', ['sv_free']), (r'compar$', ['_search4tag']), (r'::cb$', ['vf_cb', 'oer__count_bytes'])],
           trusted=[STUBM, 'stubs/bsearch.c'])
for _x, _d in ((0, 'CHOICE { x [1], y [3] }'), (1, 'CHOICE { x [1], ..., y [3] }')):
    O(id='CHOICE_decode_oer.x%d' % _x, props=['C04', 'C14'], kind='bounded', entry='h_CHOICE_decode_oer',
      functions=['CHOICE_decode_oer', 'oer_fetch_tag', 'oer_open_type_get', 'CHOICE_variant_set_presence', 'CHOICE_free'],
      defines=['VF_X=%d' % _x, 'VF_N=6', 'VF_CB_CAP=8'], unwind=10, cbmc=['--malloc-may-fail', '--malloc-fail-null', '--memory-leak-check'],
      bound=_d + ' of stub alternatives; every input of at most 6 octets in an exact-size heap buffer; every allocation may fail', min_props=80, timeout=1200, **CHO)
    O(id='CHOICE_decode_oer.chunk2.x%d' % _x, props=['C05', 'C03'], kind='bounded', entry='h_CHOICE_decode_oer_chunked',
      functions=['CHOICE_decode_oer', 'oer_fetch_tag', 'oer_open_type_get', 'CHOICE_variant_set_presence'],
      defines=['VF_X=%d' % _x, 'VF_N=6', 'VF_CB_CAP=8'], unwind=10, cbmc=['--no-malloc-may-fail'],
      bound=_d + ' of stub alternatives; every split point of every input of at most 6 octets (two chunks)', min_props=80, timeout=1200, **CHO)
    O(id='CHOICE_encode_oer.x%d' % _x, props=['C01', 'C02', 'C07'], kind='bounded', entry='h_CHOICE_encode_oer',
      functions=['CHOICE_encode_oer', 'CHOICE_decode_oer', 'oer_put_tag', 'oer_open_type_put', 'asn_TYPE_outmost_tag'],
      defines=['VF_X=%d' % _x, 'VF_N=6', 'VF_CB_CAP=8'], unwind=10, cbmc=['--no-malloc-may-fail'],
      bound=_d + ' of stub alternatives; every presence index 0..3 and value', min_props=80, timeout=1200, **CHO)

CHM = dict(harness='harness/h_choice_misc.c', units=[SK + 'constr_CHOICE.c', SK + 'der_encoder.c', SK + 'per_support.c', SK + 'asn_bit_data.c'],
           link=[SK + 'der_encoder.c', SK + 'ber_tlv_tag.c', SK + 'ber_tlv_length.c', SK + 'per_support.c', SK + 'asn_bit_data.c'],
           fp_restrict=[(r'der_encoder\)$', ['sv_der']), (r'uper_encoder\)$', ['sv_enc']), (r'uper_decoder\)$', ['sv_dec']), (r'free_struct\)$', ['sv_free']), (r'::cb$|\.output\)$|->output\)$', ['vf_cb'])],
           trusted=['alternative type is a harness stub (DER: <tag> 01 v, PER: 8 bits); descriptor laid out by hand in the shape asn1c emits'])
for _t in (0, 1):
    O(id='CHOICE_encode_der.t%d' % _t, props=['C02', 'C07'], kind='bounded', entry='h_CHOICE_encode_der', functions=['CHOICE_encode_der', 'der_write_tags', '_fetch_present_idx'],
      defines=['VF_TAGGED=%d' % _t, 'VF_CB_CAP=8'], unwind=10, cbmc=['--no-malloc-may-fail'],
      bound=('[0] EXPLICIT ' if _t else '') + 'CHOICE of three stub alternatives: every presence index 0..4, every value, every callback failure point', min_props=60, timeout=900, **CHM)
O(id='CHOICE_uper_roundtrip', props=['C01', 'C02', 'C07'], kind='bounded', entry='h_CHOICE_uper_roundtrip', functions=['CHOICE_encode_uper', 'CHOICE_decode_uper', '_fetch_present_idx', '_set_present_idx'],
  defines=['VF_CB_CAP=8'], unwind=10, cbmc=['--unwindset', 'asn_get_few_bits:4,asn_put_few_bits:4', '--no-malloc-may-fail'],
  bound='CHOICE of three root alternatives (8-bit stubs): every presence index 0..4 and value', min_props=60, timeout=900, **CHM)
O(id='CHOICE_decode_uper.b3', props=['C03', 'C04', 'C14'], kind='bounded', entry='h_CHOICE_decode_uper', functions=['CHOICE_decode_uper', 'CHOICE_free', '_set_present_idx'],
  defines=['VF_CB_CAP=8'], unwind=10, cbmc=['--unwindset', 'asn_get_few_bits:4', '--malloc-may-fail', '--malloc-fail-null', '--memory-leak-check'],
  bound='every bit string of at most 24 bits at every bit offset 0..7; every allocation may fail', min_props=60, timeout=900, **CHM)

STB = dict(harness='harness/h_set_ber.c', units=[SK + 'constr_SET.c', SK + 'ber_decoder.c', SK + 'ber_tlv_tag.c', SK + 'ber_tlv_length.c'],
           link=[SK + 'ber_decoder.c', SK + 'ber_tlv_tag.c', SK + 'ber_tlv_length.c'], stubs=['stubs/bsearch.c'],
           fp_restrict=[(r'ber_decoder\)$', ['sv_ber']), (r'free_struct\)$', ['sv_free']), (r'compar$', ['_t2e_cmp'])], trusted=[STUBT, 'stubs/bsearch.c'])
_ub = 'bsearch.0:10,ber_fetch_tag.0:11,ber_fetch_length.0:11,h_SET_decode_ber.0:11,h_SET_decode_ber.1:11,h_SET_decode_ber_chunked.0:11,h_SET_decode_ber_chunked.1:11'
O(id='SET_decode_ber.b8', props=['C04', 'C14'], kind='bounded', entry='h_SET_decode_ber',
  functions=['SET_decode_ber', 'ber_check_tags', 'ber_fetch_tag', 'ber_fetch_length', '_t2e_cmp', '_SET_is_populated', 'SET_free'],
  defines=['VF_N=8'], unwind=6, cbmc=['--unwindset', _ub, '--malloc-may-fail', '--malloc-fail-null', '--memory-leak-check'],
  bound='SET { a [0], b [1] OPTIONAL, c [2] } of stub members; every input of at most 8 octets in an exact-size heap buffer; every allocation may fail', min_props=80, timeout=1800, **STB)
O(id='SET_decode_ber.chunk2', props=['C05', 'C03'], kind='bounded', entry='h_SET_decode_ber_chunked',
  functions=['SET_decode_ber', 'ber_check_tags', 'ber_fetch_tag', 'ber_fetch_length', '_t2e_cmp', '_SET_is_populated'],
  defines=['VF_N=8'], unwind=6, cbmc=['--unwindset', _ub, '--no-malloc-may-fail'],
  bound='as SET_decode_ber.b8; every split point k (two chunks); C03: the components in every order', min_props=80, timeout=1800, **STB)

CHH = dict(harness='harness/h_choice_helpers.c', units=[SK + 'constr_CHOICE.c'], include=['contracts/constr_CHOICE.h'], backends=['cvc5', 'sat'])
O(id='_present_idx', props=['C14', 'C18', 'C19'], kind='width', entry='h_present_idx', enforce=['_set_present_idx'], functions=['_set_present_idx', '_fetch_present_idx'],
  proves=['_set_present_idx', '_fetch_present_idx'], unwind=18, bound='loop-free; every offset 0..12, field size 1/2/4, every index value', min_props=20, timeout=300, **CHH)
O(id='_fetch_present_idx', props=['C14', 'C19'], kind='width', entry='h_present_idx', enforce=['_fetch_present_idx'], functions=['_fetch_present_idx'],
  unwind=18, bound='loop-free', min_props=20, timeout=300, **CHH)
O(id='_search4tag', props=['C03', 'C05', 'C19'], kind='width', entry='h_search4tag', enforce=['_search4tag'], functions=['_search4tag'],
  unwind=4, bound='loop-free; every pair of tags', min_props=10, timeout=300, **CHH)
O(id='_search4tag.order', props=['C03', 'C05'], kind='width', entry='h_search4tag_order', functions=['_search4tag'], proves=['_search4tag'],
  unwind=4, bound='loop-free; every triple of tags', min_props=10, timeout=300, harness='harness/h_choice_helpers.c', units=[SK + 'constr_CHOICE.c'])

O(id='_t2e_cmp', props=['C03', 'C05', 'C19'], kind='width', entry='h_t2e_cmp', enforce=['_t2e_cmp'], functions=['_t2e_cmp'], harness='harness/h_seq_helpers.c',
  units=[SK + 'constr_SEQUENCE.c'], include=['contracts/constr_SEQUENCE.h'], backends=['cvc5', 'sat'], unwind=4, bound='loop-free; every pair of table entries', min_props=10, timeout=300)

OSX = dict(harness='harness/h_os_xer_body.c', units=[SK + 'OCTET_STRING.c'], stubs=['stubs/realloc64.c'], trusted=['stubs/realloc64.c replaces the CBMC realloc model'],
           defines=['VF_N=6'], unwind=9, cbmc=['--unwindset', 'realloc.0:66', '--no-malloc-may-fail'])
O(id='OCTET_STRING__convert_hexadecimal.t6', props=['C03', 'C04', 'C05'], kind='bounded', entry='h_convert_hexadecimal', functions=['OCTET_STRING__convert_hexadecimal'],
  bound='every text of at most 6 characters, every split point (two chunks)', min_props=40, timeout=900, **OSX)
O(id='OCTET_STRING__convert_binary.t6', props=['C03', 'C04', 'C05'], kind='bounded', entry='h_convert_binary', functions=['OCTET_STRING__convert_binary'],
  bound='every text of at most 6 characters, every split point (two chunks)', min_props=40, timeout=900, **OSX)

O(id='codec_ctx_scan', props=['C15'], kind='static', harness='tools/ctx_scan.py', entry='main', script='tools/ctx_scan.py',
  script_args=['c15_ctx_allow.json'], functions=[], no_canary=True,
  bound='whole skeleton library: every call from a function that has a codec-context parameter to a context-taking callee (by name or through a decoder slot) passes that parameter itself, by goto-program text; what the callee does with it is not tracked')

O(id='time_helpers.grid', props=['C17'], kind='native', harness='harness/time_grid.c', entry='main',
  functions=['asn_time2GT', 'asn_time2GT_frac', 'asn_GT2time', 'asn_GT2time_frac', 'asn_time2UT', 'asn_UT2time'], no_canary=True,
  bound='native grid with the C library calendar: 10 POSIX time zones (offsets -12:00 .. +14:00 incl. -9:30, -3:30, +5:30, +5:45, +9:30, with and without DST) x every day 1902..2106 x 8 second offsets + 20000 VERIF_SEED-driven random time_t per zone; canonical text and round trip, UTCTime within 1960..2059',
  timeout=900)

# modular variant: calls of ber_fetch_tag are replaced by its (separately enforced, unbounded) contract
O(id='SEQUENCE_decode_ber.chunk2.v0.mod', props=['C05', 'C03'], kind='bounded', tier='experimental', entry='h_SEQUENCE_decode_ber_chunked',
  functions=['SEQUENCE_decode_ber', 'ber_check_tags', 'ber_fetch_length', '_t2e_cmp'], replace=['ber_fetch_tag'], include=['contracts/ber_tlv_tag.h'],
  defines=['VF_V=0', 'VF_N=11', 'VF_MOD=1'], unwind=9, cbmc=['--unwindset', 'ber_skip_length:2,ber_fetch_length.0:14,h_SEQUENCE_decode_ber_chunked.0:14,h_SEQUENCE_decode_ber_chunked.1:14', '--no-malloc-may-fail'],
  bound='as SEQUENCE_decode_ber.chunk2.v0', min_props=80, timeout=1800, **SQB)

LF = dict(harness='harness/h_leaf.c', include=['contracts/leaf.h'], backends=['cvc5', 'sat'], kind='width', unwind=4, min_props=8, timeout=300)
O(id='asn_get_undo', props=['C04', 'C05', 'C19'], entry='h_asn_get_undo', enforce=['asn_get_undo'], functions=['asn_get_undo'], units=[SK + 'asn_bit_data.c'], link=[SK + 'asn_bit_data.c'], bound='loop-free; every stream position and bit count', **LF)
O(id='BOOLEAN_compare', props=['C01', 'C19'], entry='h_BOOLEAN_compare', enforce=['BOOLEAN_compare'], functions=['BOOLEAN_compare'], units=[SK + 'BOOLEAN.c'], link=[SK + 'BOOLEAN.c'], bound='loop-free; every pair of values / NULL', **LF)
O(id='NULL_compare', props=['C01', 'C19'], entry='h_NULL_compare', enforce=['NULL_compare'], functions=['NULL_compare'], units=[SK + 'NULL.c'], link=[SK + 'NULL.c'], bound='loop-free', **LF)
O(id='NativeInteger_compare', props=['C01', 'C13', 'C19'], entry='h_NativeInteger_compare', enforce=['NativeInteger_compare'], functions=['NativeInteger_compare'], units=[SK + 'NativeInteger.c'], link=[SK + 'NativeInteger.c'], bound='loop-free; every pair of long / unsigned long values / NULL', **LF)

SQF = dict(harness='harness/h_seqof_enc.c', units=[SK + 'constr_SEQUENCE_OF.c', SK + 'constr_SET_OF_oer.c', SK + 'constr_SET_OF.c', SK + 'der_encoder.c'],
           link=[SK + 'constr_SEQUENCE_OF.c', SK + 'constr_SET_OF.c', SK + 'asn_SET_OF.c', SK + 'asn_SEQUENCE_OF.c', SK + 'der_encoder.c', SK + 'ber_tlv_tag.c', SK + 'ber_tlv_length.c', SK + 'oer_support.c'],
           stubs=['stubs/realloc64.c'], defines=['VF_CB_CAP=12'],
           fp_restrict=[(r'der_encoder\)$', ['sv_der']), (r'oer_encoder\)$', ['sv_oenc']), (r'oer_decoder\)$', ['sv_odec']), (r'free_struct\)$', ['sv_free']), (r'::cb$', ['vf_cb'])],
           trusted=['element type is a harness stub', 'stubs/realloc64.c'])
O(id='SEQUENCE_OF_encode_der.n3', props=['C02', 'C07'], kind='bounded', entry='h_SEQUENCE_OF_encode_der', functions=['SEQUENCE_OF_encode_der', 'der_write_tags'],
  unwind=14, cbmc=['--unwindset', 'realloc.0:66', '--no-malloc-may-fail'], bound='lists of at most 3 stub elements, every callback failure point', min_props=40, timeout=600, **SQF)
for _c in (0, 1, 2, 3):
    O(id='SET_OF_oer_roundtrip.n%d' % _c, props=['C01', 'C02', 'C07'], kind='bounded', entry='h_SET_OF_oer_roundtrip', functions=['SET_OF_encode_oer', 'oer_put_quantity', 'SET_OF_decode_oer', 'oer_fetch_quantity'],
      unwind=6, cbmc=['--unwindset', 'realloc.0:66,oer_fetch_length.0:10,oer_fetch_length.1:10,oer_fetch_quantity.0:10,oer_fetch_quantity.1:10,vf_cb.0:14,oer_put_quantity.0:10', '--no-malloc-may-fail'], bound='lists of exactly %d stub elements' % _c, min_props=40, timeout=600,
      **dict(SQF, defines=['VF_CB_CAP=12', 'VF_COUNT=%d' % _c]))

O(id='SET_encode_der', props=['C02', 'C06', 'C07', 'C14'], kind='bounded', entry='h_SET_encode_der', harness='harness/h_set_enc.c',
  units=[SK + 'constr_SET.c', SK + 'der_encoder.c', SK + 'constr_TYPE.c'], link=[SK + 'der_encoder.c', SK + 'ber_tlv_tag.c', SK + 'ber_tlv_length.c', SK + 'constr_TYPE.c'],
  functions=['SET_encode_der', 'der_write_tags', 'asn_TYPE_outmost_tag', '_t2e_cmp'], stubs=['stubs/qsort_gen.c'], defines=['VF_CB_CAP=12'],
  fp_restrict=[(r'der_encoder\)$', ['sv_der', 'svc_der']), (r'outmost_tag\)$', ['svc_outmost']), (r'::cb$', ['vf_cb']), (r'compar$', ['_t2e_cmp'])],
  unwind=14, cbmc=['--unwindset', 'qsort.0:66', '--malloc-may-fail', '--malloc-fail-null', '--memory-leak-check'],
  bound='SET { a [2], b [0] OPTIONAL, c untagged CHOICE ([1] or [3]) } of stub members: every value and presence combination, every callback failure point, every allocation may fail',
  trusted=['member types are harness stubs', 'stubs/qsort_gen.c'], min_props=60, timeout=900)

for _l in (0, 1, 2, 3, 4):
  O(id='uper_open_type_skip.l%d' % _l, props=['C03', 'C04'], kind='bounded', tier='experimental', entry='h_uper_open_type_skip', harness='harness/h_per_opentype.c', defines=['VF_OTN=4', 'VF_SKIP=3', 'VF_LEN=%d' % _l],
    units=[SK + 'per_opentype.c'], functions=['uper_open_type_skip', 'uper_open_type_get_simple', 'uper_sot_suck', 'uper_get_length', 'per_get_many_bits'],
    fp_restrict=[(r'uper_decoder\)$', ['uper_sot_suck']), (r'\.output\)$', ['vf_cb', 'encode_dyn_cb', 'ignore_output'])],
    stubs=['stubs/realloc_fixed96.c', 'stubs/memcpy16.c'], unwind=10, cbmc=['--unwindset', 'asn_get_few_bits:4,realloc.0:98,memcpy.0:18', '--no-malloc-may-fail'],
    bound='open types of exactly %d octets with arbitrary contents at bit offset 3' % _l, trusted=['stubs/realloc_fixed96.c (every block is 96 bytes: writes into the slack are not detected here), stubs/memcpy16.c'], min_props=50, timeout=900)

O(id='SET_OF_decode_oer.chunk3e', props=['C05'], kind='bounded', tier='experimental', entry='h_SET_OF_decode_oer_chunked3', functions=['SET_OF_decode_oer', 'oer_fetch_quantity', 'asn_set_add'],
  unwind=6, cbmc=['--unwindset', 'oer_fetch_length.0:10,oer_fetch_length.1:10,oer_fetch_quantity.0:10,oer_fetch_quantity.1:10,realloc.0:66', '--no-malloc-may-fail'],
  bound='every split point of every input of at most 6 octets; three chunks, the middle one empty', min_props=80, timeout=1800, mem_gb=30, **dict(SFO, defines=['VF_N=6']))

O(id='CHOICE_decode_uper.ext', props=['C03', 'C04', 'C14'], kind='bounded', entry='h_CHOICE_decode_uper_ext', functions=['CHOICE_decode_uper', 'CHOICE_free', '_set_present_idx', 'uper_get_nsnnwn'],
  unwind=10, cbmc=['--unwindset', 'asn_get_few_bits:4', '--malloc-may-fail', '--malloc-fail-null', '--memory-leak-check'],
  bound='extensible CHOICE { x, ..., y, z }: every bit string of at most 24 bits, every outcome of the open type reader (stub with the decoder convention); every allocation may fail',
  min_props=60, timeout=900, **dict(CHM, defines=['VF_CB_CAP=8', 'VF_CX=1'], trusted=CHM['trusted'] + ['uper_open_type_get: harness stub (per_opentype.c not linked)']))

O(id='uper_open_type_skip.grid', props=['C03', 'C04'], kind='native', harness='harness/ot_skip_grid.c', entry='main',
  functions=['uper_open_type_skip', 'uper_open_type_get', 'uper_open_type_get_simple', 'uper_sot_suck'], no_canary=True,
  bound='native grid: open types of 0..200 and 16383..16386 octets x bit offsets 0..7 x 4 content patterns (zeros, ones, 0x55, VERIF_SEED random), run under ASan/UBSan',
  timeout=900)

O(id='uper_open_type.frag-grid', props=['C01', 'C02', 'C04', 'C18'], kind='native', harness='harness/ot_frag_grid.c', entry='main',
  functions=['uper_open_type_put', 'uper_open_type_get', 'uper_open_type_get_simple', 'uper_put_length', 'uper_get_length', 'per_put_many_bits', 'per_get_many_bits', 'uper_encode_to_new_buffer'], no_canary=True,
  bound='native grid under ASan/UBSan: open types of 1..300 octets and m*16384-2..m*16384+2 (m = 1..5) at bit offsets 0 and 3 (octets vs the X.691 10.9 fragments, read back), plus 5 hand-made valid fragment orders the encoder never produces (16K then 64K ...)',
  timeout=900)

O(id='SEQUENCE_decode_oer.ext-grid', props=['C03', 'C04', 'C05', 'C14'], kind='native', harness='harness/grid_seq_oer.c', entry='main',
  functions=['SEQUENCE_decode_oer', 'SEQUENCE_free', 'oer_open_type_get', 'oer_open_type_skip', 'asn_get_few_bits', 'asn_get_undo', 'asn_bit_data_new_contiguous'], no_canary=True,
  defines=['VF_BM_STEP=17'], bound='native grid under ASan/UBSan/LSan with the assertions of h_seq_oer.c: SEQUENCE { a, b OPTIONAL, c, ..., d } of stub members; 4 preambles x extension bitmap fields (length 1..3, unused bits 0..7, first bitmap octet every 17th value) x sequences of at most two of 5 open-type templates x every truncation x every two-chunk split, + 20000 VERIF_SEED random tails',
  timeout=1500)

for _v in (0, 1, 2):
    O(id='SEQUENCE_decode_ber.grid.v%d' % _v, props=['C03', 'C04', 'C05', 'C14'], kind='native', harness='harness/grid_seq_ber.c', entry='main',
      functions=['SEQUENCE_decode_ber', 'SEQUENCE_free', 'ber_check_tags', 'ber_fetch_tag', 'ber_fetch_length', 'ber_skip_length', '_t2e_cmp'], no_canary=True,
      defines=['VF_V=%d' % _v, 'VF_TLVS=4'], bound='native grid under ASan/UBSan/LSan with the assertions of h_seq_ber.c (descriptor variant %d): 5 outer length forms x every sequence of at most 4 of 9 TLV templates (members in and out of order, unknown primitive/constructed additions, end-of-contents, wrong length) x every truncation x every two-chunk split' % _v,
      timeout=1500)

O(id='OCTET_STRING_decode_ber.grid', props=['C03', 'C04', 'C05', 'C14'], kind='native', harness='harness/grid_os_ber.c', entry='main',
  functions=['OCTET_STRING_decode_ber', 'OCTET_STRING_free', 'ber_check_tags', 'ber_fetch_tag', 'ber_fetch_length'], no_canary=True,
  bound='native grid under ASan/UBSan/LSan with the assertions of h_octet_string_ber.c, OCTET STRING and BIT STRING: every input of at most 2 octets, 3-octet inputs with 12 leading octets, 4 outer forms x every sequence of at most 3 of 8 segment templates (primitive, nested constructed, indefinite, end-of-contents, foreign tag, bad length); every truncation x every two-chunk split',
  timeout=1500)

for _nb, _tier in ((6, 'quick'), (8, 'thorough')):
  O(id='SET_OF_decode_oer.grid%d' % _nb, props=['C04', 'C05', 'C14', 'C15'], kind='native', tier=_tier, defines=['VF_NBMAX=%d' % _nb], harness='harness/grid_setof_oer.c', entry='main',
    functions=['SET_OF_decode_oer', 'oer_fetch_quantity', 'asn_set_add', 'SET_OF_free'], no_canary=True,
    bound='native grid under ASan/UBSan/LSan with the assertions of h_setof_oer.c (one-shot, two chunks, three chunks with an empty middle one): 5 quantity field forms x n = 0..5 x every string of at most %d element octets' % _nb + ' over {00, 01, 7f, ff} x every truncation x every split point',
    timeout=1500)

O(id='oer_fetch_quantity', props=['C03', 'C04', 'C15', 'C19'], kind='width', entry='h_oer_fetch_quantity', enforce=['oer_fetch_quantity'], functions=['oer_fetch_quantity', 'oer_fetch_length'],
  harness='harness/h_oer_quantity.c', units=[SK + 'constr_SET_OF_oer.c', SK + 'oer_support.c'], link=[SK + 'oer_support.c'], include=['contracts/constr_SET_OF_oer.h'], backends=['sat', 'cvc5'],
  unwind=14, bound='loops bounded by the input: every input of at most 12 octets in an exact-size heap buffer (unwind 14, unwinding assertions)', min_props=30, timeout=600)

O(id='_edge_compare.contract', props=['C09'], kind='width', entry='h_edge_compare_contract', enforce=['_edge_compare'], functions=['_edge_compare'], include=['contracts/crange_contracts.h'],
  backends=['sat', 'cvc5'], unwind=2, bound='loop-free; every pair of edges, 128-bit values', min_props=5, timeout=300, **CR)

O(id='xer_decode_general.t8', props=['C03', 'C04', 'C05'], kind='bounded', tier='thorough', entry='h_xer_decode_general', harness='harness/h_xer.c',
  units=[SK + 'xer_decoder.c', SK + 'xer_support.c'], link=[SK + 'xer_decoder.c', SK + 'xer_support.c'], functions=['xer_decode_general', 'xer_next_token', 'xer_check_tag', 'pxml_parse'],
  fp_restrict=[(r'body_receiver$', ['body_cb']), (r'::cb$', ['xer__token_cb'])], defines=['VF_N=8'], unwind=12, cbmc=['--unwindset', 'body_cb.0:34,acc_eq.0:34', '--no-malloc-may-fail'],
  bound='every text of at most 8 characters, every split point (two chunks); element name T, body receiver is a harness stub', trusted=['body receiver is a harness stub that appends what it is given'], min_props=60, timeout=1500)

O(id='xer_decode_general.grid', props=['C03', 'C04', 'C05'], kind='native', harness='harness/grid_xer.c', entry='main',
  functions=['xer_decode_general', 'xer_next_token', 'xer_check_tag', 'pxml_parse'], no_canary=True, defines=['VF_PARTS=4'],
  bound='native grid under ASan/UBSan with the assertions of h_xer.c: every concatenation of at most 4 of 20 XML fragments (whitespace, comments with dash runs, tags of T and of a foreign element, attributes, text, stray brackets) x every truncation x every two-chunk split',
  timeout=1500)

O(id='SEQUENCE_decode_xer.grid', props=['C03', 'C04', 'C05', 'C14'], kind='native', harness='harness/grid_seq_xer.c', entry='main',
  functions=['SEQUENCE_decode_xer', 'SEQUENCE_free', 'xer_decode_general', 'xer_next_token', 'xer_check_tag', 'xer_skip_unknown', 'pxml_parse'], no_canary=True, defines=['VF_PARTS=4'],
  bound='native grid under ASan/UBSan/LSan with the assertions of h_seq_xer.c: SEQUENCE { a, b OPTIONAL, c, ..., d OPTIONAL } whose members decode with the real xer_decode_general: "<T>" + every concatenation of at most 4 of 13 fragments (members in and out of order, unknown additions, whitespace, comments, stray tags) x every truncation x every two-chunk split',
  timeout=1500)

for _g, _h, _fn, _pr, _bd in (
    ('SET_OF_decode_ber.grid', 'harness/grid_setof_ber.c', ['SET_OF_decode_ber', 'SET_OF_free', 'asn_set_add', 'ber_check_tags'], ['C03', 'C04', 'C05', 'C14', 'C15'], '5 outer length forms x every sequence of at most 5 of 7 TLV templates'),
    ('SET_decode_ber.grid', 'harness/grid_set_ber.c', ['SET_decode_ber', 'SET_free', '_SET_is_populated', 'ber_check_tags'], ['C03', 'C04', 'C05', 'C14'], '5 outer length forms x every sequence of at most 4 of 7 TLV templates (components in every order, duplicates)'),
    ('CHOICE_decode_ber.grid.v0', 'harness/grid_choice_ber0.c', ['CHOICE_decode_ber', 'CHOICE_free'], ['C03', 'C04', 'C05', 'C14'], 'untagged CHOICE: every sequence of at most 3 of 7 TLV templates'),
    ('CHOICE_decode_ber.grid.v1', 'harness/grid_choice_ber1.c', ['CHOICE_decode_ber', 'CHOICE_free', 'ber_check_tags'], ['C03', 'C04', 'C05', 'C14'], '[0] EXPLICIT CHOICE: 5 outer length forms x every sequence of at most 3 of 7 TLV templates (incl. 00 01 where end-of-contents is expected)')):
    O(id=_g, props=_pr, kind='native', harness=_h, entry='main', functions=_fn, no_canary=True,
      bound='native grid under ASan/UBSan/LSan with the assertions of the CBMC harness of the same decoder: ' + _bd + ' x every truncation x every two-chunk split', timeout=1500)

O(id='xer_whitespace_span', props=['C03', 'C04', 'C19'], entry='h_xer_whitespace_span', harness='harness/h_xer_ws.c', units=[SK + 'xer_decoder.c'], link=[SK + 'xer_decoder.c'],
  include=['contracts/xer_decoder.h'], enforce=['xer_whitespace_span'], loops=True, functions=['xer_whitespace_span'], backends=['sat', 'cvc5'], min_props=15, timeout=600)

O(id='xer_check_tag', props=['C03', 'C04', 'C19'], entry='h_xer_check_tag', harness='harness/h_xer_ws.c', units=[SK + 'xer_decoder.c'], link=[SK + 'xer_decoder.c'],
  include=['contracts/xer_decoder.h'], enforce=['xer_check_tag'], loops=True, functions=['xer_check_tag'], backends=['sat', 'cvc5'], min_props=15, timeout=600)

O(id='pxml_parse', props=['C04', 'C19'], entry='h_pxml_parse', harness='harness/h_pxml.c', units=[SK + 'xer_support.c'], link=[SK + 'xer_support.c'],
  include=['contracts/xer_support.h'], enforce=['pxml_parse'], loops=True, functions=['pxml_parse'], fp_restrict=[(r'::cb$', ['tok_cb'])], backends=['sat', 'cvc5'], min_props=15, timeout=900,
  trusted=['token callback: harness stub without side effects, arbitrary return value'])

for _c in (0, 1, 2, 3):
    O(id='SET_OF_encode_uper.n%d' % _c, props=['C02', 'C06', 'C07', 'C14'], kind='bounded', tier='experimental', entry='h_SET_OF_encode_uper', harness='harness/h_setof_uper_enc.c',
      units=[SK + 'constr_SET_OF.c', SK + 'per_encoder.c', SK + 'per_support.c', SK + 'asn_bit_data.c'], link=[SK + 'asn_SET_OF.c', SK + 'per_encoder.c', SK + 'per_support.c', SK + 'asn_bit_data.c'],
      functions=['SET_OF_encode_uper', 'SET_OF__encode_sorted', 'SET_OF__encode_sorted_free', '_el_addbytes', '_el_buf_cmp', 'uper_encode', 'uper_put_length', 'asn_put_many_bits'],
      stubs=['stubs/qsort_gen.c', 'stubs/realloc_fixed96.c', 'stubs/memcpy16.c'], defines=['VF_CB_CAP=8', 'VF_COUNT=%d' % _c],
      fp_restrict=[(r'uper_encoder\)$', ['sv_enc']), (r'::cb$|\.output\)$|->output\)$', ['vf_cb', '_el_addbytes']), (r'compar$', ['_el_buf_cmp'])],
      unwind=12, cbmc=['--unwindset', 'realloc.0:98,qsort.0:66,memcpy.0:18,asn_put_few_bits:4', '--malloc-may-fail', '--malloc-fail-null', '--memory-leak-check'],
      bound='lists of exactly %d stub elements of 8 bits, no SIZE constraint; every order, every output failure point, every allocation may fail' % _c,
      trusted=['element type is a harness stub', 'stubs/qsort_gen.c, stubs/realloc64.c, stubs/memcpy16.c'], min_props=60, timeout=900)

for _c in (0, 1, 2, 3):
    O(id='SET_OF_encode_uper.grid.n%d' % _c, props=['C02', 'C06', 'C07', 'C14'], kind='native', harness='harness/grid_setof_uper.c', entry='main',
      functions=['SET_OF_encode_uper', 'SET_OF__encode_sorted', 'SET_OF__encode_sorted_free', '_el_addbytes', '_el_buf_cmp', 'uper_encode', 'uper_put_length', 'asn_put_many_bits'], no_canary=True,
      defines=['VF_COUNT=%d' % _c, 'VF_CB_CAP=40', 'VF_PREFILL=1'], bound='native grid under ASan/UBSan/LSan with the assertions of h_setof_uper_enc.c (scratch space pre-filled so that every octet is flushed through the callback): lists of exactly %d 8-bit stub elements (all values for <= 2 elements, 24^3 grid for 3) x no / 0th..3rd output call failing' % _c, timeout=900)

O(id='SEQUENCE_encode_oer.cbfail', props=['C07'], kind='bounded', entry='h_SEQUENCE_encode_oer', functions=['SEQUENCE_encode_oer', 'asn_put_few_bits', 'asn_put_aligned_flush', 'oer_open_type_put'],
  unwind=22, cbmc=['--no-malloc-may-fail'], bound='as SEQUENCE_encode_oer, the output callback refuses one call (any of the first 9)', min_props=60, timeout=900, **dict(SQE, defines=['VF_CB_CAP=20', 'VF_OER_FAIL=1']))

O(id='CHOICE_encode_oer.cbfail', props=['C07'], kind='bounded', entry='h_CHOICE_encode_oer', functions=['CHOICE_encode_oer', 'oer_put_tag', 'oer_open_type_put'],
  unwind=10, cbmc=['--no-malloc-may-fail'], bound='extensible CHOICE of stub alternatives; the output callback refuses one call (any of the first 5)', min_props=60, timeout=900, **dict(CHO, defines=['VF_X=1', 'VF_N=6', 'VF_CB_CAP=8', 'VF_FAIL=1']))
O(id='SET_OF_encode_oer.cbfail', props=['C07'], kind='bounded', entry='h_SET_OF_oer_roundtrip', functions=['SET_OF_encode_oer', 'oer_put_quantity'],
  unwind=6, cbmc=['--unwindset', 'realloc.0:66,oer_fetch_length.0:10,oer_fetch_length.1:10,oer_fetch_quantity.0:10,oer_fetch_quantity.1:10,vf_cb.0:14,oer_put_quantity.0:10', '--no-malloc-may-fail'],
  bound='list of 2 stub elements; the output callback refuses one call (any of the first 5)', min_props=40, timeout=600, **dict(SQF, defines=['VF_CB_CAP=12', 'VF_COUNT=2', 'VF_FAIL=1']))

O(id='SEQUENCE_encode_uper.cbfail', props=['C07'], kind='bounded', entry='h_SEQUENCE_encode_uper_cbfail', functions=['SEQUENCE_encode_uper', 'per_put_few_bits', 'per_put_aligned_flush'],
  unwind=10, cbmc=['--unwindset', 'asn_put_few_bits:4,vf_cb.0:42', '--no-malloc-may-fail'], bound='every value and presence combination; the output callback refuses one call (any of the first 6), scratch space pre-filled', min_props=60, timeout=900,
  **dict(SQU, defines=['VF_CB_CAP=40']))

O(id='OCTET_STRING_xer.grid', props=['C01', 'C02', 'C07'], kind='native', harness='harness/grid_os_xer.c', entry='main',
  functions=['OCTET_STRING_encode_xer', 'BIT_STRING_encode_xer', 'OCTET_STRING__convert_hexadecimal', 'OCTET_STRING__convert_binary'], no_canary=True,
  bound='native grid under ASan/UBSan: OCTET STRING and BIT STRING of every length 0..70 (0..7 unused bits) x 3 content patterns x BASIC and CANONICAL XER: text against the contents, size accounting, conversion back', timeout=600)

O(id='SEQUENCE_transcode.grid', props=['C01'], kind='native', harness='harness/grid_transcode.c', entry='main',
  functions=['SEQUENCE_encode_der', 'SEQUENCE_decode_ber', 'SEQUENCE_encode_oer', 'SEQUENCE_decode_oer', 'SEQUENCE_encode_uper', 'SEQUENCE_decode_uper', 'SEQUENCE_free'], no_canary=True,
  bound='native grid under ASan/UBSan/LSan: SEQUENCE { a, b OPTIONAL, c } of 2-octet stub members, chain DER -> BER decode -> OER -> decode -> UPER -> decode -> DER for 65536 values of a x b absent/present x 2 values of c', timeout=600)

O(id='OCTET_STRING_encode_xer.canonical', props=['C04', 'C07', 'C19'], entry='h_OCTET_STRING_encode_xer_canonical', harness='harness/h_os_xer_enc.c', units=[SK + 'OCTET_STRING.c'], link=[SK + 'OCTET_STRING.c'],
  include=['contracts/OCTET_STRING_xer.h'], enforce=['OCTET_STRING_encode_xer'], loops=True, functions=['OCTET_STRING_encode_xer'], fp_restrict=[(r'::cb$', ['out_cb'])], backends=['sat', 'cvc5'], min_props=15, timeout=900,
  trusted=['output callback: harness stub without side effects, arbitrary return value'])

for _c in (0, 1, 2, 3):
    O(id='SET_OF_encode_uper.grid.size2.n%d' % _c, props=['C02', 'C06', 'C07', 'C08'], kind='native', harness='harness/grid_setof_uper.c', entry='main',
      functions=['SET_OF_encode_uper', 'SET_OF__encode_sorted', '_el_buf_cmp', 'uper_encode', 'asn_put_many_bits'], no_canary=True,
      defines=['VF_COUNT=%d' % _c, 'VF_CB_CAP=40', 'VF_PREFILL=1', 'VF_SIZECT=2'], bound='as SET_OF_encode_uper.grid.n%d, with the constraint SIZE(2): lists of %d elements' % (_c, _c), timeout=900)

O(id='BIT_STRING_uper.size-grid', props=['C01', 'C02'], kind='native', harness='harness/grid_bs_uper.c', entry='main',
  functions=['BIT_STRING_encode_uper', 'BIT_STRING_decode_uper', 'BIT_STRING__compactify', 'per_put_many_bits', 'per_get_many_bits'], no_canary=True,
  bound='native grid under ASan/UBSan: BIT STRING (SIZE(n)) for every n = 1..420 x 13 positions of the last one-bit (zero padding of 0..n bits, incl. exact multiples of 128): bits written, round trip', timeout=600)

O(id='SEQUENCE_encode_oer.aoms8', props=['C02', 'C06', 'C07'], kind='bounded', entry='h_SEQUENCE_encode_oer', functions=['SEQUENCE_encode_oer', 'asn_put_few_bits', 'asn_put_aligned_flush', 'oer_open_type_put'],
  unwind=22, cbmc=['--no-malloc-may-fail'], bound='as SEQUENCE_encode_oer with eight extension additions (a full bitmap octet: no unused bits)', min_props=60, timeout=900, **dict(SQE, defines=['VF_CB_CAP=20', 'VF_AOMS=8']))

O(id='SET_OF_encode_xer.grid', props=['C06', 'C07', 'C14'], kind='native', harness='harness/grid_setof_xer.c', entry='main',
  functions=['SET_OF_encode_xer', 'SET_OF_encode_xer_callback', 'SET_OF_xer_order'], no_canary=True,
  bound='native grid under ASan/UBSan/LSan: lists of 0..3 stub elements over 5 texts: CANONICAL-XER text sorted and independent of the order in memory; BASIC and CANONICAL with the k-th allocation (0..7) or the j-th output call (0..9) failing', timeout=600)

for _x in (0, 1):
    O(id='CHOICE_decode_oer.grid.x%d' % _x, props=['C03', 'C04', 'C05', 'C14'], kind='native', harness='harness/grid_choice_oer%d.c' % _x, entry='main',
      functions=['CHOICE_decode_oer', 'CHOICE_free', 'oer_fetch_tag', 'oer_open_type_get'], no_canary=True,
      bound='native grid under ASan/UBSan/LSan with the assertions of h_choice_oer.c (variant %d): every sequence of at most 3 of 9 fragments x every truncation x every two-chunk split' % _x, timeout=900)

for _o in OBLIGATIONS:
    if _o.get('enforce') and _o.get('kind') in ('enforce', 'width') and _o.get('tier') == 'quick' and 'C19' not in _o['props']:
        _o['props'] = _o['props'] + ['C19']

CONSTR = 'constructed codecs beyond the stub-member obligations: the container logic of SEQUENCE (BER decode, DER/OER/UPER encode, OER/UPER decode without extension additions), SET OF (BER/OER decode, DER encode), CHOICE (BER decode) and the four constraint walkers is covered for hand-laid descriptors of 1..5 stub members and inputs of at most 8..11 octets (bounded); not covered: SET (constr_SET.c codecs), CHOICE OER/UPER/DER, SET OF UPER/OER encode, SEQUENCE OER/UPER with extension additions (obligations experimental: the SAT back end runs out of memory on allocations of symbolic size), nesting of real constructed types inside each other, descriptors as the compiler generates them'
GEN = 'everything the compiler emits as text: type descriptor tables (emit_type_DEF, emit_member_table), constraint checkers (asn1c_emit_constraint_checking_code), tag maps, selector tables'
XERU = 'XER beyond the engine: the constructed XER decoders other than SEQUENCE_decode_xer (which has a native grid only), all XER encoders, the OCTET STRING entity/UTF-8 bodies, REAL/INTEGER/ENUMERATED text forms (snprintf/strtod); the engine itself (xer_decode_general, xer_next_token, xer_check_tag, pxml_parse) and the hexadecimal/binary bodies are covered by bounded obligations and a native grid only'
UNVERIFIED = {
 'C01': [CONSTR, GEN, XERU, 'uper_open_type_put / uper_open_type_get_simple: fragmentation at 16K needs inputs beyond any unwinding bound; covered only by the native grid uper_open_type.frag-grid (sizes around m*16K, m <= 5)', 'INTEGER (wide) UPER with semi-constrained ranges; NativeEnumerated (bsearch has no CBMC model); REAL text forms; time types', 'transcoding chains beyond the SEQUENCE DER/OER/UPER chain of the native grid SEQUENCE_transcode.grid (XER legs, other containers)'],
 'C02': [CONSTR, GEN, 'tag assignment in the fixer (asn1f_fix_constr_autotag, asn1f_fetch_tags)', 'restricted-string PER alphabets (OCTET_STRING_per_put_characters)', 'NativeInteger_uper.* obligations exist but do not discharge (tier experimental)'],
 'C03': [CONSTR, XERU, 'OCTET_STRING_decode_ber constructed reassembly (obligation experimental)', 'uper_open_type_get_simple / uper_open_type_skip: no CBMC obligation discharges (bit-level fragment copying); covered only by the native grid uper_open_type_skip.grid', 'ber_skip_length (obligation experimental: recursion does not discharge)'],
 'C04': [CONSTR, XERU, 'OCTET_STRING_decode_ber (experimental)', 'per_opentype.c', 'UTF8String__process, OCTET_STRING_per_get_characters', 'unber (experimental)'],
 'C05': [CONSTR + ' -- i.e. every phase/step machine that saves a context across calls', XERU],
 'C06': ['SET_OF_encode_uper (canonical ordering for PER) is covered by a native grid only (CBMC runs out of memory); SET OF lists of more than 3 elements', 'the default_value_cmp functions themselves (try_inline_default emits text)', 'CANONICAL-XER', 'decode-from-variant then re-encode for constructed types'],
 'C07': ['asn_encode_to_buffer / asn_encode_to_new_buffer / uper_encode_to_buffer / uper_encode_to_new_buffer with a UPER type encoder: obligations exist (tier experimental) but do not discharge (symbolic-length memcpy of the 32-octet bit scratch space runs out of memory); asn_encode with UPER is covered',
         'every constructed / generated type encoder is assumed to follow the operation-slot convention enumerated by the stub encoder', XERU,
         'NULL_encode_der and other type encoders not listed under functions_under_contract'],
 'C08': [GEN, 'UTF8String_constraint / UTF8String__process', 'OBJECT_IDENTIFIER_constraint'],
 'C09': ['asn1constraint_compute_constraint_range (recursion over parsed constraint ASTs, value resolution), asn1constraint_pullup, asn1f_resolve_constraints', '_range_intersection (obligations experimental: out of memory / time), _range_union with three or more pieces, _range_canonicalize', 'emit_single_member_OER_constraint_size, alphabet-size branch of emit_single_member_PER_constraint', 'the consequence clause (same root set => same encoding) follows only as far as the tree evaluation is covered, i.e. it is not claimed'],
 'C13': ['options acting in the code generator (-fcompound-names, -findirect-choice, -fno-include-deps, -fincludes-quoted, -fno-constraints, codec disabling): properties of emitted text', 'NativeReal vs REAL, NativeEnumerated vs ENUMERATED', 'pointer-vs-inline members in constructed codecs'],
 'C14': [CONSTR, XERU, 'asn_set_add/del/empty obligation is experimental (realloc model runs out of memory)', 'uper_open_type_put leak obligation experimental'],
 'C15': ['machine stack depth: not expressible (CBMC has no stack-size notion; ASN__STACK_OVERFLOW_CHECK compares addresses of different objects); only the propagation of the codec context to every context-taking callee is checked (static fact codec_ctx_scan)', CONSTR, 'OCTET_STRING_decode_ber expectation stack'],
 'C16': ['asn_REAL2double on arbitrary REAL encodings (only encodings produced by asn_double2REAL are covered, in the thorough tier); decimal NR1-3 forms (strtod)', 'decimal parsers beyond 7 characters except the overflow-boundary neighbourhood', 'asn_INTEGER2imax/umax beyond 24 octets'],
 'C17': ['asn_GT2time*, asn_time2GT*, asn_UT2time, asn_time2UT: no contract within reach (libc calendar, TZ); covered only by the native grid time_helpers.grid (10 zones, day steps 1902..2106), fractions and non-GMT forms not at all', 'OBJECT_IDENTIFIER_parse_arcs, OBJECT_IDENTIFIER_get_arcs beyond 4 arcs, RELATIVE-OID'],
 'C18': [GEN + ' (emit_member_type_selector, asn1c_ioc.c object-set matrix, WITH SYNTAX parsing)', 'OPEN_TYPE_xer_get, OPEN_TYPE_uper_get', 'the SEQUENCE decoders that call the getters'],
 'C19': ['actual interleavings, libc reentrancy (strtod, snprintf; errno is thread-local by assumption)', 'writes through pointers into static objects are not tracked by the scan', 'frames are machine-checked only for the functions listed under proof_obligations with kind enforce / width+enforce'],
 'C20': ['enber, and the enber(unber -p x) == x inverse: not applicable', 'unber obligations are experimental (do not discharge within 40 minutes for 5-octet inputs)'],
}
