"""
Registry of proof obligations.  Each entry is one goto-cc / goto-instrument / cbmc run.
 kind: enforce (function body against its contract, all inputs; loops closed by loop contracts)
       lemma   (consequence of contracts only: every call replaced by its contract)
       width   (loop bounded by an operand width; --unwind W with unwinding assertions = complete)
       bounded (input-size bound: stand-in, never counted as proof)
"""
OBLIGATIONS = []

def O(**kw):
    kw.setdefault('kind', 'enforce')
    kw.setdefault('tier', 'quick')
    OBLIGATIONS.append(kw)
    return kw

SK = 'skeletons/'

# ---------------------------------------------------------------- L0: BER tag
O(id='ber_fetch_tag', props=['C02', 'C03', 'C04', 'C05'],
  harness='harness/ber_fetch_tag.c', entry='h_ber_fetch_tag',
  units=[SK + 'ber_tlv_tag.c'], include=['contracts/ber_tlv_tag.h'],
  enforce=['ber_fetch_tag'], loops=True, min_props=40, timeout=300)

UNVERIFIED = {}
