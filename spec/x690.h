/*
 * spec/x690.h -- loop-free specification functions written from ITU-T X.690
 * (BER/DER).  Independent of the code under verification; usable in CBMC
 * contracts (pure static inline) and in native replay.
 */
#ifndef VF_SPEC_X690_H
#define VF_SPEC_X690_H
#include <stdint.h>
#include <stddef.h>

/* ---- 8.1.2 identifier octets.  asn1c packs a tag as (number << 2) | class ---- */
static inline unsigned spec_tag_class(unsigned tag) { return tag & 3u; }
static inline unsigned spec_tag_number(unsigned tag) { return tag >> 2; }

/* number of identifier octets, X.690 8.1.2.2 / 8.1.2.4 (minimal base-128) */
static inline size_t spec_tag_len(unsigned tag) {
	unsigned n = tag >> 2;
	return n <= 30 ? 1 : n < (1u << 7) ? 2 : n < (1u << 14) ? 3 : n < (1u << 21) ? 4 : n < (1u << 28) ? 5 : 6;
}
/* i-th identifier octet (0-based) without the P/C bit */
static inline uint8_t spec_tag_octet(unsigned tag, size_t i) {
	unsigned n = tag >> 2, c = tag & 3u;
	size_t len = spec_tag_len(tag);
	if(len == 1) return (uint8_t)((c << 6) | n);
	if(i == 0) return (uint8_t)((c << 6) | 0x1F);
	/* subsequent octets: big-endian groups of 7 bits, bit 8 set except in the last */
	{
		unsigned shift = (unsigned)(7 * (len - 1 - i));
		uint8_t g = (uint8_t)((n >> shift) & 0x7F);
		return (uint8_t)(i == len - 1 ? g : (0x80 | g));
	}
}

/* ---- 8.1.3 length octets, definite form, DER 10.1: minimal ---- */
static inline size_t spec_der_len_len(uint64_t len) {
	return len <= 127 ? 1 : len < (1ull << 8) ? 2 : len < (1ull << 16) ? 3 : len < (1ull << 24) ? 4
	     : len < (1ull << 32) ? 5 : len < (1ull << 40) ? 6 : len < (1ull << 48) ? 7 : len < (1ull << 56) ? 8 : 9;
}
static inline uint8_t spec_der_len_octet(uint64_t len, size_t i) {
	size_t n = spec_der_len_len(len);
	if(n == 1) return (uint8_t)len;
	if(i == 0) return (uint8_t)(0x80 | (n - 1));
	return (uint8_t)(len >> (8 * (n - 1 - i)));
}

/* ---- 8.3 INTEGER contents octets: minimal two's complement ---- */
static inline size_t spec_int_len(int64_t v) {
	/* smallest n such that -2^(8n-1) <= v < 2^(8n-1) */
	return (v >= -(1ll << 7) && v < (1ll << 7)) ? 1 : (v >= -(1ll << 15) && v < (1ll << 15)) ? 2
	     : (v >= -(1ll << 23) && v < (1ll << 23)) ? 3 : (v >= -(1ll << 31) && v < (1ll << 31)) ? 4
	     : (v >= -(1ll << 39) && v < (1ll << 39)) ? 5 : (v >= -(1ll << 47) && v < (1ll << 47)) ? 6
	     : (v >= -(1ll << 55) && v < (1ll << 55)) ? 7 : 8;
}
static inline uint8_t spec_int_octet(int64_t v, size_t i) {
	size_t n = spec_int_len(v);
	return (uint8_t)(((uint64_t)v) >> (8 * (n - 1 - i)));
}
/* unsigned 64-bit value as INTEGER contents: 1..9 octets */
static inline size_t spec_uint_len(uint64_t v) {
	return v < (1ull << 7) ? 1 : v < (1ull << 15) ? 2 : v < (1ull << 23) ? 3 : v < (1ull << 31) ? 4
	     : v < (1ull << 39) ? 5 : v < (1ull << 47) ? 6 : v < (1ull << 55) ? 7 : v < (1ull << 63) ? 8 : 9;
}
static inline uint8_t spec_uint_octet(uint64_t v, size_t i) {
	size_t n = spec_uint_len(v);
	size_t sh = n - 1 - i;
	return sh >= 8 ? 0 : (uint8_t)(v >> (8 * sh));
}


/* value denoted by n (1..8) contents octets, two's complement big-endian (8.3.3) */
static inline int64_t spec_int_decode(const uint8_t *b, size_t n) {
	uint64_t v = (b[0] & 0x80) ? ~(uint64_t)0 : 0;
	v = (v << 8) | b[0];
	if(n > 1) v = (v << 8) | b[1];
	if(n > 2) v = (v << 8) | b[2];
	if(n > 3) v = (v << 8) | b[3];
	if(n > 4) v = (v << 8) | b[4];
	if(n > 5) v = (v << 8) | b[5];
	if(n > 6) v = (v << 8) | b[6];
	if(n > 7) v = (v << 8) | b[7];
	return (int64_t)v;
}
/* unsigned value of n (0..8) octets, big-endian */
static inline uint64_t spec_uint_decode(const uint8_t *b, size_t n) {
	uint64_t v = 0;
	if(n > 0) v = (v << 8) | b[0];
	if(n > 1) v = (v << 8) | b[1];
	if(n > 2) v = (v << 8) | b[2];
	if(n > 3) v = (v << 8) | b[3];
	if(n > 4) v = (v << 8) | b[4];
	if(n > 5) v = (v << 8) | b[5];
	if(n > 6) v = (v << 8) | b[6];
	if(n > 7) v = (v << 8) | b[7];
	return v;
}

/* all n (<= 9) octets of buf equal the spec octets */
#define VF_OCT_EQ(buf, n, specfn, v) ( \
	((n) <= 0 || (buf)[0] == specfn(v, 0)) && ((n) <= 1 || (buf)[1] == specfn(v, 1)) && \
	((n) <= 2 || (buf)[2] == specfn(v, 2)) && ((n) <= 3 || (buf)[3] == specfn(v, 3)) && \
	((n) <= 4 || (buf)[4] == specfn(v, 4)) && ((n) <= 5 || (buf)[5] == specfn(v, 5)) && \
	((n) <= 6 || (buf)[6] == specfn(v, 6)) && ((n) <= 7 || (buf)[7] == specfn(v, 7)) && \
	((n) <= 8 || (buf)[8] == specfn(v, 8)))

/* an octet at position i is a redundant leading octet (X.690 8.3.2 forbids it, decoders accept it) */
#define VF_REDUNDANT(b, i) (((b)[i] == 0x00 && ((b)[(i) + 1] & 0x80) == 0) || ((b)[i] == 0xFF && ((b)[(i) + 1] & 0x80) != 0))



/* macro forms (loop invariants may not contain calls) */
#define VF_UT(p, n, i) ((n) > (i) ? ((uint64_t)(p)[i] << (8 * ((n) - 1 - (i)))) : (uint64_t)0)
#define VF_UDEC(p, n) (VF_UT(p, n, 0) | VF_UT(p, n, 1) | VF_UT(p, n, 2) | VF_UT(p, n, 3) | \
	VF_UT(p, n, 4) | VF_UT(p, n, 5) | VF_UT(p, n, 6) | VF_UT(p, n, 7))
/* sign-extension fill octet for an INTEGER whose leading octet is x */
#define VF_FILL(x) (((x) & 0x80) ? 0xFF : 0x00)

#endif
