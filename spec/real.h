/*
 * spec/real.h -- X.690 8.5 + 11.3 (DER) contents octets of REAL for an IEEE-754
 * binary64 value given by its bit pattern.  Loop-free, independent of the code.
 *   special values 8.5.9: +inf 0x40, -inf 0x41, NaN 0x42, -0 0x43, +0 no octets
 *   binary form 8.5.7, base 2, F=0; DER 11.3.1: mantissa odd, M and E in the
 *   fewest octets.
 */
#ifndef VF_SPEC_REAL_H
#define VF_SPEC_REAL_H
#include <stdint.h>
#include <stddef.h>

struct spec_real { size_t len; uint8_t oct[12]; };

static inline unsigned spec_ctz64(uint64_t x) { /* x != 0 */
	unsigned n = 0;
	if((x & 0xFFFFFFFFull) == 0) { n += 32; x >>= 32; }
	if((x & 0xFFFFull) == 0) { n += 16; x >>= 16; }
	if((x & 0xFFull) == 0) { n += 8; x >>= 8; }
	if((x & 0xFull) == 0) { n += 4; x >>= 4; }
	if((x & 0x3ull) == 0) { n += 2; x >>= 2; }
	if((x & 0x1ull) == 0) { n += 1; }
	return n;
}

static inline struct spec_real spec_der_real(uint64_t bits) {
	struct spec_real r;
	unsigned sign = (unsigned)(bits >> 63);
	unsigned e = (unsigned)((bits >> 52) & 0x7FF);
	uint64_t f = bits & 0xFFFFFFFFFFFFFull;
	uint64_t M; int E; unsigned tz; size_t elen, mlen, i = 0;
	r.len = 0;
	r.oct[0] = r.oct[1] = r.oct[2] = r.oct[3] = r.oct[4] = r.oct[5] = 0;
	r.oct[6] = r.oct[7] = r.oct[8] = r.oct[9] = r.oct[10] = r.oct[11] = 0;
	if(e == 0x7FF) { r.len = 1; r.oct[0] = f ? 0x42 : sign ? 0x41 : 0x40; return r; }
	if(e == 0 && f == 0) { if(sign) { r.len = 1; r.oct[0] = 0x43; } return r; }
	M = e ? ((1ull << 52) | f) : f;          /* subnormals have no implicit leading one */
	E = (int)(e ? e : 1) - 1075;             /* value = M * 2^E */
	tz = spec_ctz64(M); M >>= tz; E += (int)tz;      /* 11.3.1: mantissa odd */
	elen = (E >= -128 && E <= 127) ? 1 : (E >= -32768 && E <= 32767) ? 2 : 3;
	mlen = M < (1ull << 8) ? 1 : M < (1ull << 16) ? 2 : M < (1ull << 24) ? 3 : M < (1ull << 32) ? 4
	     : M < (1ull << 40) ? 5 : M < (1ull << 48) ? 6 : 7;
	r.oct[i++] = (uint8_t)(0x80 | (sign << 6) | (elen - 1));
	if(elen >= 3) r.oct[i++] = (uint8_t)((unsigned)E >> 16);
	if(elen >= 2) r.oct[i++] = (uint8_t)((unsigned)E >> 8);
	r.oct[i++] = (uint8_t)(unsigned)E;
	if(mlen >= 7) r.oct[i++] = (uint8_t)(M >> 48);
	if(mlen >= 6) r.oct[i++] = (uint8_t)(M >> 40);
	if(mlen >= 5) r.oct[i++] = (uint8_t)(M >> 32);
	if(mlen >= 4) r.oct[i++] = (uint8_t)(M >> 24);
	if(mlen >= 3) r.oct[i++] = (uint8_t)(M >> 16);
	if(mlen >= 2) r.oct[i++] = (uint8_t)(M >> 8);
	r.oct[i++] = (uint8_t)M;
	r.len = i;
	return r;
}

/* ilogb() over the IEEE-754 fields, as glibc defines it (FP_ILOGB0 = INT_MIN, FP_ILOGBNAN = INT_MIN,
 * ilogb(inf) = INT_MAX); subnormals: position of the leading one */
static inline int spec_ilogb_bits(uint64_t bits) {
	unsigned e = (unsigned)((bits >> 52) & 0x7FF);
	uint64_t f = bits & 0xFFFFFFFFFFFFFull;
	if(e == 0x7FF) return f ? (-2147483647 - 1) : 2147483647;
	if(e == 0) {
		unsigned p = 0; uint64_t x = f;
		if(f == 0) return (-2147483647 - 1);
		if(x >> 32) { p += 32; x >>= 32; }
		if(x >> 16) { p += 16; x >>= 16; }
		if(x >> 8) { p += 8; x >>= 8; }
		if(x >> 4) { p += 4; x >>= 4; }
		if(x >> 2) { p += 2; x >>= 2; }
		if(x >> 1) { p += 1; }
		return (int)p - 1074;
	}
	return (int)e - 1023;
}
#endif
