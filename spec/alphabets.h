/* restricted character string alphabets, written from X.680 (clause 41, tables 8-10) */
#ifndef VF_SPEC_ALPHABETS_H
#define VF_SPEC_ALPHABETS_H
/* PrintableString: A-Z a-z 0-9 space ' ( ) + , - . / : = ? */
#define SPEC_PRINTABLE(c) (((c) >= 'A' && (c) <= 'Z') || ((c) >= 'a' && (c) <= 'z') || ((c) >= '0' && (c) <= '9') || (c) == ' ' || \
	(c) == '\'' || (c) == '(' || (c) == ')' || (c) == '+' || (c) == ',' || (c) == '-' || (c) == '.' || (c) == '/' || (c) == ':' || (c) == '=' || (c) == '?')
/* NumericString: digits and space */
#define SPEC_NUMERIC(c) (((c) >= '0' && (c) <= '9') || (c) == ' ')
/* VisibleString (ISO646String): graphic characters of IA5 and space, 0x20..0x7E */
#define SPEC_VISIBLE(c) ((c) >= 0x20 && (c) <= 0x7E)
/* IA5String: 0..127 */
#define SPEC_IA5(c) ((c) <= 0x7F)
#endif
