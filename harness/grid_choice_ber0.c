/* bounded stand-in (native grid): CHOICE over BER (variant 0 of harness/h_choice_ber.c) with longer inputs than the CBMC
 * obligations reach: outer forms x every sequence of at most 3 TLV templates x every truncation x every split point. */
#define VF_GRID 1
#define VF_V 0
#define VF_N 20
#include "h_choice_ber.c"
#define VF_TLVS 3
#define NT 7
#define NFORMS 1
#define OUTER 0
static const unsigned char TPL[NT][6] = { {3, 0x81, 1, 0x11}, {3, 0x83, 1, 0x12}, {3, 0x85, 1, 0x15}, {4, 0x81, 2, 0x13, 0x14}, {2, 0x00, 0x00}, {2, 0x00, 0x01}, {4, 0x9f, 0x01, 1, 0x16} };
#define ONE h_CHOICE_decode_ber
#define CHUNK h_CHOICE_decode_ber_chunked
#include "grid_tlv.h"
