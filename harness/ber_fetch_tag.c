/* enforce ber_fetch_tag against its contract for every buffer of every size */
#include <vf.h>
#include <asn_internal.h>
#include <ber_tlv_tag.h>
#include <spec/x690.h>
#include "ber_tlv_tag.c"

size_t vf_k;

void h_ber_fetch_tag(void) {
	VF_SCALAR(size_t, size);
	VF_SCALAR(size_t, k);
	__CPROVER_assume(size <= (SIZE_MAX >> 1));
	VF_HEAPBUF(buf, size);
	ber_tlv_tag_t tag = 0xdeadbeef;
	vf_k = k;
	ssize_t r = ber_fetch_tag(buf, size, &tag);
	VF_CANARY();
	/* property-level statements (also evaluated in native replay) */
	__CPROVER_assert(r >= -1 && (r <= 0 || (size_t)r <= size), "C04: consumed <= size");
	if(size >= 1 && (buf[0] & 0x1F) != 0x1F)
		__CPROVER_assert(r == 1 && tag == (((buf[0] & 0x1Fu) << 2) | (buf[0] >> 6)), "C03: low tag number form accepted");
	if(r > 1) {
		__CPROVER_assert((buf[r - 1] & 0x80) == 0, "X.690 8.1.2.4.2: last octet has bit 8 clear");
		if(k >= 1 && k < (size_t)r - 1) __CPROVER_assert(buf[k] & 0x80, "X.690 8.1.2.4.2: earlier octets have bit 8 set");
		__CPROVER_assert((tag & 3) == (buf[0] >> 6), "tag class");
		/* number = base-128 value of the last five subsequent octets, all earlier ones are 0x80 padding */
#define G(i) ((uint64_t)((long)(i) >= 1 ? (buf[(long)(i)] & 0x7Fu) : 0u))
		__CPROVER_assert((uint64_t)(tag >> 2) == ((G(r - 5) << 28) | (G(r - 4) << 21) | (G(r - 3) << 14) | (G(r - 2) << 7) | G(r - 1)),
			"C03: tag number is the base-128 value of the subsequent octets");
		if((long)k >= 1 && (long)k < r - 5) __CPROVER_assert(buf[k] == 0x80, "C03: only 0x80 padding before the significant octets");
	}
	if(r == 0 && k >= 1 && k < size) __CPROVER_assert(buf[k] & 0x80, "C05: WMORE only when no terminating octet present");
	free(buf);
}

VF_NATIVE_MAIN
