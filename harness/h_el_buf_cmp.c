/* C06: the comparator that orders the encoded members of a SET OF (X.690 11.6, X.691 canonical SET OF) */
#include <vf.h>
#include <asn_internal.h>
#include <constr_SET_OF.h>
#include "constr_SET_OF.c"

#define NE 4
static void mk(struct _el_buffer *e, unsigned char *b, size_t n, unsigned unused) { e->buf = b; e->length = n; e->allocated_size = NE; e->bits_unused = unused; }

void h_el_buf_cmp(void) {
	VF_BYTES(a, NE); VF_BYTES(b, NE); VF_BYTES(c, NE); VF_SCALAR(size_t, na); VF_SCALAR(size_t, nb); VF_SCALAR(size_t, nc);
	VF_SCALAR(unsigned, ua); VF_SCALAR(unsigned, ub); VF_SCALAR(unsigned, uc);
	__CPROVER_assume(na <= NE && nb <= NE && nc <= NE && ua <= 7 && ub <= 7 && uc <= 7);
	/* encoders leave the unused bits of the last octet zero (asserted by the comparator itself) */
	__CPROVER_assume(na ? (a[na - 1] & ~(0xff << ua)) == 0 : ua == 0);
	__CPROVER_assume(nb ? (b[nb - 1] & ~(0xff << ub)) == 0 : ub == 0);
	__CPROVER_assume(nc ? (c[nc - 1] & ~(0xff << uc)) == 0 : uc == 0);
	struct _el_buffer A, B, C; mk(&A, a, na, ua); mk(&B, b, nb, ub); mk(&C, c, nc, uc);
	int ab = _el_buf_cmp(&A, &B), ba = _el_buf_cmp(&B, &A), bc = _el_buf_cmp(&B, &C), ac = _el_buf_cmp(&A, &C);
	VF_CANARY();
	int same = na == nb, i;
	for(i = 0; i < NE; i++) if((size_t)i < na && (size_t)i < nb && a[i] != b[i]) same = 0;
	__CPROVER_assert((ab == 0) == same, "C06: members compare equal exactly when their encodings are identical octet strings");
	__CPROVER_assert((ab < 0) == (ba > 0) && (ab == 0) == (ba == 0), "C06: the order is antisymmetric");
	__CPROVER_assert(!(ab <= 0 && bc <= 0) || ac <= 0, "C06: the order is transitive (sorting is well defined)");
	/* X.690 11.6: compared as octet strings, the shorter one padded with trailing 0-octets: first differing octet decides */
	{ int d = 0; for(i = 0; i < NE; i++) if(!d && (size_t)i < na && (size_t)i < nb && a[i] != b[i]) d = a[i] < b[i] ? -1 : 1;
	  if(d) __CPROVER_assert((ab < 0) == (d < 0), "C06: X.690 11.6 the first differing octet decides the order"); }
}

VF_NATIVE_MAIN
