/* CHOICE over OER (C01, C02, C03, C04, C05, C14): the real CHOICE_decode_oer / CHOICE_encode_oer (with the real oer_fetch_tag,
 * oer_put_tag, oer_open_type_get/put, CHOICE_variant_set_presence) and CHOICE_free run over a hand-laid descriptor of the
 * shape asn1c emits.  Alternative type SV is a harness stub: 2 octets, restartable (RC_WMORE until both are in), v0 = 0xFF invalid.
 *   VF_X=0   C ::= CHOICE { x [1] SV, y [3] SV }
 *   VF_X=1   C ::= CHOICE { x [1] SV, ..., y [3] SV }      (y is an extension addition: sent as an open type)
 * X.696 20: tag octet(s) of the alternative, then its encoding (wrapped as an open type after the extension marker). */
#include <vf.h>
#include <vf_cb.h>
#include <asn_internal.h>
#include <constr_CHOICE.h>
#include "constr_CHOICE_oer.c"

#ifndef VF_X
#define VF_X 0
#endif
#ifndef VF_N
#define VF_N 6
#endif

struct sv { uint8_t got; uint8_t v[2]; };
struct C { int present; union { struct sv x; struct sv *y; } choice; asn_struct_ctx_t _asn_ctx; };
#define CTX(n) ((ber_tlv_tag_t)((n) << 2) | ASN_TAG_CLASS_CONTEXT)
static asn_TYPE_descriptor_t sv_td, C_td;
static asn_TYPE_operation_t sv_op;
static asn_TYPE_member_t C_elems[2];
static asn_CHOICE_specifics_t C_specs;
static asn_TYPE_tag2member_t C_tag2el[2];
static int live;

static asn_dec_rval_t sv_oer(const asn_codec_ctx_t *c, const asn_TYPE_descriptor_t *td, const asn_oer_constraints_t *ct, void **sptr, const void *buf, size_t size) {
	asn_dec_rval_t rv; struct sv *s = (struct sv *)*sptr; const uint8_t *p = (const uint8_t *)buf;
	(void)c; (void)td; (void)ct;
	rv.consumed = 0;
	if(!s) { s = (struct sv *)calloc(1, sizeof(*s)); *sptr = s; if(!s) { rv.code = RC_FAIL; return rv; } live++; }
	if(s->got < 1 && size > rv.consumed) { s->v[0] = p[rv.consumed]; s->got = 1; rv.consumed++; }
	if(s->got == 1 && size > rv.consumed) { s->v[1] = p[rv.consumed]; s->got = 2; rv.consumed++; }
	if(s->got < 2) { rv.code = RC_WMORE; return rv; }
	rv.code = (s->v[0] == 0xFF) ? RC_FAIL : RC_OK;
	return rv;
}
static asn_enc_rval_t sv_enc(const asn_TYPE_descriptor_t *td, const asn_oer_constraints_t *ct, const void *sptr, asn_app_consume_bytes_f *cb, void *key) {
	asn_enc_rval_t er; const struct sv *s = (const struct sv *)sptr;
	(void)ct;
	er.failed_type = 0; er.structure_ptr = 0;
	if(s->v[0] == 0xFF || cb(s->v, 2, key) < 0) { er.encoded = -1; er.failed_type = td; er.structure_ptr = sptr; return er; }
	er.encoded = 2;
	return er;
}
static void sv_free(const asn_TYPE_descriptor_t *td, void *p, enum asn_struct_free_method m) {
	(void)td;
	if(!p) return;
	if(m == ASFM_FREE_EVERYTHING) { live--; free(p); }
	else if(m == ASFM_FREE_UNDERLYING_AND_RESET) memset(p, 0, sizeof(struct sv));
}
static void setup(void) {
	memset(&sv_op, 0, sizeof(sv_op)); sv_op.oer_decoder = sv_oer; sv_op.oer_encoder = sv_enc; sv_op.free_struct = sv_free;
	memset(&sv_td, 0, sizeof(sv_td)); sv_td.name = "SV"; sv_td.op = &sv_op;
	memset(C_elems, 0, sizeof(C_elems));
	C_elems[0].memb_offset = offsetof(struct C, choice.x); C_elems[0].tag = CTX(1); C_elems[0].tag_mode = -1; C_elems[0].type = &sv_td; C_elems[0].name = "x";
	C_elems[1].flags = ATF_POINTER; C_elems[1].memb_offset = offsetof(struct C, choice.y); C_elems[1].tag = CTX(3); C_elems[1].tag_mode = -1; C_elems[1].type = &sv_td; C_elems[1].name = "y";
	memset(C_tag2el, 0, sizeof(C_tag2el));
	C_tag2el[0].el_tag = CTX(1); C_tag2el[0].el_no = 0; C_tag2el[1].el_tag = CTX(3); C_tag2el[1].el_no = 1;
	memset(&C_specs, 0, sizeof(C_specs)); C_specs.struct_size = sizeof(struct C); C_specs.ctx_offset = offsetof(struct C, _asn_ctx);
	C_specs.pres_offset = offsetof(struct C, present); C_specs.pres_size = sizeof(int); C_specs.tag2el = C_tag2el; C_specs.tag2el_count = 2; C_specs.ext_start = VF_X ? 1 : -1;
	memset(&C_td, 0, sizeof(C_td)); C_td.name = "C"; C_td.elements = C_elems; C_td.elements_count = 2; C_td.specifics = &C_specs;
	live = 0;
}
static const struct sv *alt(const struct C *c) { return c->present == 1 ? &c->choice.x : c->present == 2 ? c->choice.y : 0; }
static int C_eq(const struct C *a, const struct C *b) {
	if(!a || !b) return a == b;
	if(a->present != b->present) return 0;
	const struct sv *x = alt(a), *y = alt(b);
	if(!x || !y) return x == y;
	return x->got == y->got && (x->got < 1 || x->v[0] == y->v[0]) && (x->got < 2 || x->v[1] == y->v[1]);
}
/* independent reading: 81 v0 v1 | 83 v0 v1 (VF_X=0) | 83 02 v0 v1 (VF_X=1) */
static int spec_valid(const uint8_t *p, size_t n, int *a, uint8_t *v0, uint8_t *v1, size_t *total) {
	size_t i = 1;
	if(n < 1 || (p[0] != 0x81 && p[0] != 0x83)) return 0;
	*a = p[0] == 0x81 ? 1 : 2;
	if(VF_X && *a == 2) { if(n < 2 || p[1] != 2) return 0; i = 2; }
	if(i + 2 > n || p[i] == 0xFF) return 0;
	*v0 = p[i]; *v1 = p[i + 1]; *total = i + 2;
	return 1;
}

void h_CHOICE_decode_oer(void) {
	VF_BYTES(buf, VF_N); VF_SCALAR(size_t, size);
	__CPROVER_assume(size <= VF_N);
	setup();
	unsigned char *in = (unsigned char *)malloc(size); __CPROVER_assume(in != 0);
	for(size_t i = 0; i < VF_N; i++) if(i < size) in[i] = buf[i];
	void *st = 0;
	asn_dec_rval_t rv = CHOICE_decode_oer(0, &C_td, 0, &st, in, size);
	VF_CANARY();
	__CPROVER_assert(rv.code == RC_OK || rv.code == RC_WMORE || rv.code == RC_FAIL, "C04: return code is RC_OK, RC_WMORE or RC_FAIL");
	__CPROVER_assert(rv.consumed <= size, "C04: consumed <= size");
	if(st) __CPROVER_assert(((struct C *)st)->present >= 0 && ((struct C *)st)->present <= 2, "C04: the presence index names an alternative or none");
	CHOICE_free(&C_td, st, ASFM_FREE_EVERYTHING);
	__CPROVER_assert(live == 0, "C14: CHOICE_free releases the selected alternative exactly once");
	free(in);
}

void h_CHOICE_decode_oer_chunked(void) {
	VF_BYTES(buf, VF_N); VF_SCALAR(size_t, size); VF_SCALAR(size_t, k);
	__CPROVER_assume(size <= VF_N && k <= size);
	setup();
	void *st1 = 0, *st2 = 0;
	asn_dec_rval_t one = CHOICE_decode_oer(0, &C_td, 0, &st1, buf, size);
	asn_dec_rval_t r1 = CHOICE_decode_oer(0, &C_td, 0, &st2, buf, k);
	VF_CANARY();
	int a; uint8_t v0, v1; size_t total;
	if(spec_valid(buf, size, &a, &v0, &v1, &total)) {
		struct C *c = (struct C *)st1;
		__CPROVER_assert(one.code == RC_OK && one.consumed == total, "C03: a valid encoding is accepted with its full length consumed");
		if(one.code == RC_OK) __CPROVER_assert(c->present == a && alt(c) && alt(c)->v[0] == v0 && alt(c)->v[1] == v1, "C03: the alternative named by the tag is selected and decoded");
	}
	__CPROVER_assert(r1.consumed <= k, "C05: consumed does not exceed the chunk");
	if(one.code == RC_OK && k < one.consumed)
		__CPROVER_assert(r1.code == RC_WMORE, "C05: a proper prefix of a valid encoding yields RC_WMORE");
	if(r1.code == RC_WMORE) {
		asn_dec_rval_t r2 = CHOICE_decode_oer(0, &C_td, 0, &st2, buf + r1.consumed, size - r1.consumed);
		__CPROVER_assert(r2.code == one.code, "C05: chunked decoding ends with the same return code as one-shot decoding");
		if(one.code != RC_FAIL) {
			__CPROVER_assert(r1.consumed + r2.consumed == one.consumed, "C05: chunked decoding consumes the same total");
			if(one.code == RC_OK) __CPROVER_assert(C_eq((struct C *)st1, (struct C *)st2), "C05: chunked decoding yields the same value");
		}
	} else {
		__CPROVER_assert(r1.code == one.code, "C05: a chunk that decides the outcome decides it as the whole buffer does");
		if(one.code == RC_OK) {
			__CPROVER_assert(r1.consumed == one.consumed, "C05: same consumed count");
			__CPROVER_assert(C_eq((struct C *)st1, (struct C *)st2), "C05: same value");
		}
	}
	CHOICE_free(&C_td, st1, ASFM_FREE_EVERYTHING); CHOICE_free(&C_td, st2, ASFM_FREE_EVERYTHING);
}

void h_CHOICE_encode_oer(void) {
	VF_BYTES(vals, 2); VF_SCALAR(int, present); VF_SCALAR(int, has_y);
	__CPROVER_assume(present >= 0 && present <= 3);
	setup();
	struct C c; struct sv vy; memset(&c, 0, sizeof(c)); memset(&vy, 0, sizeof(vy));
	c.present = present;
	if(present == 1) { c.choice.x.v[0] = vals[0]; c.choice.x.v[1] = vals[1]; c.choice.x.got = 2; }
	if(present == 2) { vy.v[0] = vals[0]; vy.v[1] = vals[1]; vy.got = 2; c.choice.y = has_y ? &vy : 0; }
#ifdef VF_FAIL
	{ VF_SCALAR(long, fail_at); __CPROVER_assume(fail_at >= 0 && fail_at <= 4); vf_cb_fail_at = fail_at; }
#endif
	asn_enc_rval_t er = CHOICE_encode_oer(&C_td, 0, &c, vf_cb, 0);
	VF_CANARY();
	if(vf_cb_failed) { __CPROVER_assert(er.encoded == -1, "C07: a failing output callback makes the call fail"); return; }
	if(present == 0 || present == 3 || (present == 2 && !has_y) || vals[0] == 0xFF) {
		__CPROVER_assert(er.encoded == -1, "C07: no alternative selected, selected alternative absent or not encodable: clean failure");
		return;
	}
	size_t n = 3 + ((VF_X && present == 2) ? 1 : 0);
	__CPROVER_assert(er.encoded == (ssize_t)n && vf_cb_bytes == n, "C02/C07: size of the encoding equals the bytes delivered");
	__CPROVER_assert(vf_cb_log[0] == (present == 1 ? 0x81 : 0x83), "C02: tag of the selected alternative");
	if(VF_X && present == 2) __CPROVER_assert(vf_cb_log[1] == 2 && vf_cb_log[2] == vals[0] && vf_cb_log[3] == vals[1], "C02: an extension alternative is sent as an open type");
	else __CPROVER_assert(vf_cb_log[1] == vals[0] && vf_cb_log[2] == vals[1], "C02: the alternative follows its tag");
	/* C01: decoding the octets gives the value back */
	void *st = 0;
	asn_dec_rval_t rv = CHOICE_decode_oer(0, &C_td, 0, &st, vf_cb_log, vf_cb_bytes);
	__CPROVER_assert(rv.code == RC_OK && rv.consumed == n, "C01: the encoding is decoded with its full length consumed");
	if(rv.code == RC_OK) __CPROVER_assert(C_eq((struct C *)st, &c), "C01: decoding returns the value");
	CHOICE_free(&C_td, st, ASFM_FREE_EVERYTHING);
}

VF_NATIVE_MAIN
