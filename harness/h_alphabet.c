/* C08: built-in restricted-string alphabets, strings of every length (loop contracts) */
#include <vf.h>
#include <asn_internal.h>
#include <PrintableString.h>
#include <NumericString.h>
#include <VisibleString.h>
#include <IA5String.h>
#include <spec/alphabets.h>
size_t vf_k;
#ifndef VF_WHICH
#define VF_WHICH 0
#endif
#if VF_WHICH == 0
#include "PrintableString.c"
#define FN PrintableString_constraint
#define TD asn_DEF_PrintableString
#define IN_ALPHABET(c) SPEC_PRINTABLE(c)
#elif VF_WHICH == 1
#include "NumericString.c"
#define FN NumericString_constraint
#define TD asn_DEF_NumericString
#define IN_ALPHABET(c) SPEC_NUMERIC(c)
#elif VF_WHICH == 2
#include "VisibleString.c"
#define FN VisibleString_constraint
#define TD asn_DEF_VisibleString
#define IN_ALPHABET(c) SPEC_VISIBLE(c)
#else
#include "IA5String.c"
#define FN IA5String_constraint
#define TD asn_DEF_IA5String
#define IN_ALPHABET(c) SPEC_IA5(c)
#endif

/* strings of every length: accepted only if every character is in the alphabet (loop contract) */
void h_alphabet_sound(void) {
	VF_SCALAR(size_t, size); VF_SCALAR(size_t, k);
	__CPROVER_assume(size <= (SIZE_MAX >> 1));
	VF_HEAPBUF(buf, size);
	OCTET_STRING_t st; memset(&st, 0, sizeof(st)); st.buf = buf; st.size = size;
	vf_k = k;
	int r = FN(&TD, &st, 0, 0);
	VF_CANARY();
	__CPROVER_assert(r == 0 || r == -1, "C08: result is 0 or -1");
	if(r == 0 && k < size) __CPROVER_assert(IN_ALPHABET(buf[k]), "C08: a string is accepted only if every character is in the type's alphabet");
	free(buf);
}


VF_NATIVE_MAIN
