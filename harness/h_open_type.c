/* C18 (runtime half): OPEN_TYPE_ber_get / OPEN_TYPE_oer_get decode the open-type bytes with exactly the type the
 * selector returns, into the selected variant, and fail cleanly.  Selector, selected type decoder and free function
 * are harness stubs that record what they were asked to do. */
#include <vf.h>
#include <asn_internal.h>
#include <OPEN_TYPE.h>
#include <constr_CHOICE.h>
#include "constr_CHOICE.c"
#include "OPEN_TYPE.c"
#include "oer_support.c"
#include "oer_decoder.c"
#include "OPEN_TYPE_oer.c"

#ifndef VF_FINDING_D20
#define VF_FINDING_D20 0
#endif

struct outer { long id; struct choice { int present; union { long a; long b; } choice; asn_struct_ctx_t _asn_ctx; } value; asn_struct_ctx_t _asn_ctx; };
static struct outer obj;
static asn_TYPE_descriptor_t sel_td, choice_td, outer_td;
static asn_TYPE_operation_t sel_op, choice_op;
static asn_TYPE_member_t choice_elems[2];
static asn_CHOICE_specifics_t choice_specs;
static int sel_idx, dec_code; static size_t dec_consumed;
static int dec_calls, free_calls, dec_td_ok, dec_ptr_ok, free_ptr_ok;

static asn_type_selector_result_t selector(const asn_TYPE_descriptor_t *ptd, const void *parent) {
	asn_type_selector_result_t r; (void)ptd; (void)parent;
	r.type_descriptor = sel_idx ? &sel_td : 0; r.presence_index = (unsigned)sel_idx; return r;
}
static void *expected_inner(void) { return (char *)&obj.value + choice_elems[sel_idx - 1].memb_offset; }
static asn_dec_rval_t stub_ber(const asn_codec_ctx_t *c, const asn_TYPE_descriptor_t *td, void **sptr, const void *buf, size_t size, int tag_mode) {
	asn_dec_rval_t rv; (void)c; (void)buf; (void)tag_mode;
	dec_calls++; dec_td_ok = (td == &sel_td); dec_ptr_ok = (*sptr == expected_inner());
	rv.code = (enum asn_dec_rval_code_e)dec_code; rv.consumed = dec_consumed <= size ? dec_consumed : size;
	if(rv.code == RC_OK) *(long *)*sptr = 42;
	return rv;
}
static asn_dec_rval_t stub_oer(const asn_codec_ctx_t *c, const asn_TYPE_descriptor_t *td, const asn_oer_constraints_t *ct, void **sptr, const void *buf, size_t size) {
	(void)ct; return stub_ber(c, td, sptr, buf, size, 0);
}
static void stub_free(const asn_TYPE_descriptor_t *td, void *p, enum asn_struct_free_method m) {
	(void)m; free_calls++; free_ptr_ok = (td == &sel_td && p == expected_inner());
}
static void choice_free(const asn_TYPE_descriptor_t *td, void *p, enum asn_struct_free_method m) {
	(void)td; if(m == ASFM_FREE_UNDERLYING_AND_RESET) memset(p, 0, sizeof(struct choice));
}
static void setup(void) {
	VF_SCALAR(int, idx); VF_SCALAR(int, code); VF_SCALAR(size_t, cons); VF_SCALAR(int, old_present);
	__CPROVER_assume(idx >= 0 && idx <= 2 && code >= 0 && code <= 2 && cons <= 16 && old_present >= 0 && old_present <= 2);
	sel_idx = idx; dec_code = code; dec_consumed = cons;
	memset(&sel_op, 0, sizeof(sel_op)); sel_op.ber_decoder = stub_ber; sel_op.oer_decoder = stub_oer; sel_op.free_struct = stub_free;
	memset(&sel_td, 0, sizeof(sel_td)); sel_td.name = "Sel"; sel_td.op = &sel_op;     /* an ordinary type: specifics == NULL */
	memset(&choice_specs, 0, sizeof(choice_specs)); choice_specs.struct_size = sizeof(struct choice); choice_specs.ctx_offset = offsetof(struct choice, _asn_ctx);
	choice_specs.pres_offset = offsetof(struct choice, present); choice_specs.pres_size = sizeof(int); choice_specs.ext_start = -1;
	memset(choice_elems, 0, sizeof(choice_elems));
	choice_elems[0].memb_offset = offsetof(struct choice, choice.a); choice_elems[0].type = &sel_td; choice_elems[0].name = "a";
	choice_elems[1].memb_offset = offsetof(struct choice, choice.b); choice_elems[1].type = &sel_td; choice_elems[1].name = "b";
	memset(&choice_op, 0, sizeof(choice_op)); choice_op.free_struct = choice_free;
	memset(&choice_td, 0, sizeof(choice_td)); choice_td.name = "Open"; choice_td.op = &choice_op; choice_td.elements = choice_elems; choice_td.elements_count = 2; choice_td.specifics = &choice_specs;
	memset(&outer_td, 0, sizeof(outer_td)); outer_td.name = "Outer";
	memset(&obj, 0, sizeof(obj)); obj.value.present = old_present;
}

void h_OPEN_TYPE_ber_get(void) {
	VF_BYTES(buf, 16); VF_SCALAR(size_t, size); VF_SCALAR(int, has_selector); VF_SCALAR(int, is_open);
	__CPROVER_assume(size <= 16);
	setup();
	asn_TYPE_member_t elm; memset(&elm, 0, sizeof(elm));
	elm.flags = is_open ? ATF_OPEN_TYPE : ATF_NOFLAGS; elm.memb_offset = offsetof(struct outer, value); elm.type = &choice_td; elm.type_selector = has_selector ? selector : 0; elm.name = "value";
	VF_FINDING(VF_FINDING_D20, is_open && has_selector && sel_idx != 0 && dec_code != RC_OK);
	asn_dec_rval_t rv = OPEN_TYPE_ber_get(0, &outer_td, &obj, &elm, buf, size);
	VF_CANARY();
	if(!is_open || !has_selector || sel_idx == 0) {
		__CPROVER_assert(rv.code == RC_FAIL && dec_calls == 0 && free_calls == 0, "C18: no open type flag / no selector / identifier without a row in the object set: clean failure, nothing decoded");
		return;
	}
	__CPROVER_assert(dec_calls == 1 && dec_td_ok && dec_ptr_ok, "C18: the bytes are decoded by exactly the type the object set pairs with the identifier, into that variant");
	__CPROVER_assert(rv.consumed <= size, "C04: consumed <= size");
	if(dec_code == RC_OK) __CPROVER_assert(rv.code == RC_OK && obj.value.present == sel_idx && rv.consumed == (dec_consumed <= size ? dec_consumed : size), "C18: success selects the variant and reports what the inner decoder consumed");
	else {
		__CPROVER_assert(rv.code == (enum asn_dec_rval_code_e)dec_code, "C18: inner failure is reported");
		__CPROVER_assert(free_calls == 1 && free_ptr_ok && obj.value.present == 0, "C18/C14: on failure the variant is released exactly once and the open type member is reset");
	}
}

void h_OPEN_TYPE_oer_get(void) {
	VF_BYTES(buf, 16); VF_SCALAR(size_t, size);
	__CPROVER_assume(size <= 16);
	setup();
	asn_TYPE_member_t elm; memset(&elm, 0, sizeof(elm));
	elm.flags = ATF_OPEN_TYPE; elm.memb_offset = offsetof(struct outer, value); elm.type = &choice_td; elm.type_selector = selector; elm.name = "value";
	asn_dec_rval_t rv = OPEN_TYPE_oer_get(0, &outer_td, &obj, &elm, buf, size);
	VF_CANARY();
	if(sel_idx == 0) { __CPROVER_assert(rv.code == RC_FAIL && dec_calls == 0, "C18: identifier without a row: clean failure"); return; }
	__CPROVER_assert(rv.code == RC_OK || rv.code == RC_WMORE || rv.code == RC_FAIL, "C04: return code");
	if(dec_calls) __CPROVER_assert(dec_calls == 1 && dec_td_ok && dec_ptr_ok, "C18: decoded by the selected type into the selected variant");
	if(rv.code == RC_OK) __CPROVER_assert(obj.value.present == sel_idx && rv.consumed <= size, "C18: success selects the variant");
}

/* oer_open_type_get on its own: the contained value is released on failure with the method that matches who allocated it */
static int inner_code; static void *inner_alloc; static int free2_calls; static enum asn_struct_free_method free2_method;
static asn_dec_rval_t stub_oer2(const asn_codec_ctx_t *c, const asn_TYPE_descriptor_t *td, const asn_oer_constraints_t *ct, void **sptr, const void *buf, size_t size) {
	asn_dec_rval_t rv; (void)c; (void)td; (void)ct; (void)buf;
	if(!*sptr) { *sptr = inner_alloc = malloc(8); if(!*sptr) { rv.code = RC_FAIL; rv.consumed = 0; return rv; } }
	rv.code = (enum asn_dec_rval_code_e)inner_code; rv.consumed = size;
	return rv;
}
static void stub_free2(const asn_TYPE_descriptor_t *td, void *p, enum asn_struct_free_method m) {
	(void)td; free2_calls++; free2_method = m;
	if(p && m == ASFM_FREE_EVERYTHING) free(p);
}
void h_oer_open_type_get(void) {
	VF_BYTES(buf, 12); VF_SCALAR(size_t, size); VF_SCALAR(int, code); VF_SCALAR(int, prealloc);
	__CPROVER_assume(size <= 12 && code >= 0 && code <= 2);
	inner_code = code;
	asn_TYPE_operation_t op; memset(&op, 0, sizeof(op)); op.oer_decoder = stub_oer2; op.free_struct = stub_free2;
	asn_TYPE_descriptor_t td; memset(&td, 0, sizeof(td)); td.name = "Inner"; td.op = &op;
	long storage = 0;
	void *sptr = prealloc ? (void *)&storage : (void *)0;
	ssize_t r = oer_open_type_get(0, &td, 0, &sptr, buf, size);
	VF_CANARY();
	__CPROVER_assert(r >= -1 && (r <= 0 || (size_t)r <= size), "C04: consumed <= size");
	if(r == -1 && free2_calls) {
		__CPROVER_assert(free2_calls == 1 && sptr == 0, "C18/C14: a failed open type value is released once and the pointer cleared");
		__CPROVER_assert(free2_method == (prealloc ? ASFM_FREE_UNDERLYING_AND_RESET : ASFM_FREE_EVERYTHING), "C14: caller-provided storage is reset, decoder-allocated storage is freed");
	}
	if(r > 0 && !prealloc) free(sptr);
}

VF_NATIVE_MAIN
