/* bounded stand-in (native grid): BIT STRING with a fixed SIZE(n) constraint over unaligned PER (C01, C02): the real
 * BIT_STRING_encode_uper / BIT_STRING_decode_uper under ASan/UBSan.  X.691 16.9: exactly n bits, no length determinant; a value
 * stored with fewer significant bits (trailing zero bits trimmed by BIT_STRING__compactify) is padded with zero bits up to n.
 * Every n = 1..420 x values whose last one-bit is at 13 chosen positions (none, 0, 1, n-257, n-256, n-255, n-129, n-128, n-127,
 * n-9, n-8, n-2, n-1): the bits written are the value followed by zeros, n bits in all, and reading them back gives the value. */
#include <stdio.h>
#include <stdlib.h>
#include <string.h>
#include <stdint.h>
#include <asn_internal.h>
#include <BIT_STRING.h>
#include <per_support.h>
static unsigned long long evaluated, failed;
static unsigned char out[200]; static size_t out_n;
static int collect(const void *p, size_t n, void *key) { (void)key; if(out_n + n > sizeof(out)) return -1; memcpy(out + out_n, p, n); out_n += n; return 0; }
static void fail(const char *w, long n, long last) { if(failed++ < 10) printf("VF-GRID: FAIL SIZE(%ld) last one-bit at %ld: %s\n", n, last, w); }
int main(void) {
	for(long n = 1; n <= 420; n++) {
		long cand[13] = { -1, 0, 1, n - 257, n - 256, n - 255, n - 129, n - 128, n - 127, n - 9, n - 8, n - 2, n - 1 };
		for(int ci = 0; ci < 13; ci++) {
			long last = cand[ci]; if(last < -1 || last >= n) continue;
			unsigned char val[60]; memset(val, 0, sizeof(val));
			for(long b = 0; b <= last; b++) if(b == last || (b * 7 + n) % 3 == 0) val[b >> 3] |= (unsigned char)(0x80 >> (b & 7));
			BIT_STRING_t st; memset(&st, 0, sizeof(st)); st.buf = val; st.size = (int)((n + 7) / 8); st.bits_unused = (int)((8 - (n & 7)) & 7);
			asn_per_constraints_t pc; memset(&pc, 0, sizeof(pc));
			pc.value.flags = APC_UNCONSTRAINED; pc.value.range_bits = -1; pc.value.effective_bits = -1;
			pc.size.flags = APC_CONSTRAINED; pc.size.range_bits = 0; pc.size.effective_bits = 0; pc.size.lower_bound = n; pc.size.upper_bound = n;
			asn_per_outp_t po; memset(&po, 0, sizeof(po)); po.buffer = po.tmpspace; po.nbits = 8 * sizeof(po.tmpspace); po.output = collect;
			out_n = 0; memset(out, 0, sizeof(out)); evaluated++;
			asn_enc_rval_t er = BIT_STRING_encode_uper(&asn_DEF_BIT_STRING, &pc, &st, &po);
			if(er.encoded < 0 || per_put_aligned_flush(&po)) { fail("encoding failed", n, last); continue; }
			if(out_n != (size_t)((n + 7) / 8)) { fail("number of bits written is not n", n, last); continue; }
			if(memcmp(out, val, out_n)) { fail("bits written differ from the value padded with zeros", n, last); continue; }
			asn_per_data_t pd; memset(&pd, 0, sizeof(pd)); pd.buffer = out; pd.nbits = (size_t)n;
			void *sp = 0; asn_dec_rval_t rv = BIT_STRING_decode_uper(0, &asn_DEF_BIT_STRING, &pc, &sp, &pd);
			BIT_STRING_t *bk = (BIT_STRING_t *)sp;
			if(rv.code != RC_OK || !bk || (long)(8 * bk->size - bk->bits_unused) != n || memcmp(bk->buf, val, (size_t)((n + 7) / 8)) || (long)pd.moved != n) fail("reading back does not give the n-bit value", n, last);
			ASN_STRUCT_FREE(asn_DEF_BIT_STRING, sp);
		}
	}
	printf("VF-GRID: evaluated %llu failed %llu\n", evaluated, failed); fflush(stdout);
	return failed ? 1 : 0;
}
