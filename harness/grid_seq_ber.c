/* bounded stand-in (native grid): the BER SEQUENCE decoder (member lookup incl. the tag2el/bsearch path, extension skipping,
 * indefinite lengths, restart), which CBMC gets through only for the smallest configuration (thorough tier) or not at all
 * (extension variant).  The assertions are the ones of harness/h_seq_ber.c (C03 against the independent reading spec_valid,
 * C04, C05 two-chunk split against one-shot, C14 free), evaluated natively under ASan/UBSan/LSan on enumerated inputs:
 * outer header 30 L (exact, one short, one long), 30 81 L, or 30 80 ... 00 00; contents = every sequence of at most VF_TLVS of the
 * TLV templates below (members in and out of order, unknown primitive and constructed additions, end-of-contents, junk);
 * every truncation; every split point. */
#define VF_GRID 1
#ifndef VF_V
#define VF_V 1
#endif
#define VF_N 24
#include "h_seq_ber.c"

#ifndef VF_TLVS
#define VF_TLVS 4
#endif
static unsigned char in_buf[VF_N]; static size_t in_len;
static void run(size_t size, size_t k) {
	vf_grid_n = 0;
	vf_grid_tab[vf_grid_n++] = (struct vf_grid_in){ "buf", 0, in_buf, VF_N };
	vf_grid_tab[vf_grid_n++] = (struct vf_grid_in){ "size", size, 0, 0 };
	vf_grid_tab[vf_grid_n++] = (struct vf_grid_in){ "k", k, 0, 0 };
	if(k == 0) { VF_GRID_RUN(h_SEQUENCE_decode_ber); VF_GRID_RUN(h_SEQUENCE_decode_ber_reset); }
	VF_GRID_RUN(h_SEQUENCE_decode_ber_chunked);
}
static void all_cuts(void) { for(size_t size = 0; size <= in_len; size++) for(size_t k = 0; k <= size; k++) run(size, k); }
#define NT 9
static const unsigned char TPL[NT][6] = {
	{3, 0x80, 1, 0x11}, {3, 0x82, 1, 0x13}, {3, 0x81, 1, 0x12}, {3, 0x83, 1, 0x14},      /* a, c, b ([1]), b ([3]) */
	{3, 0x85, 1, 0x15}, {4, 0x86, 2, 0x16, 0x17}, {5, 0xa5, 3, 0x80, 1, 0x00},              /* unknown additions: primitive, primitive, constructed */
	{2, 0x00, 0x00}, {3, 0x82, 2, 0x13} };                                                  /* end-of-contents; c with a wrong length */
static void put(const unsigned char *p, size_t n) { for(size_t i = 0; i < n && in_len < VF_N; i++) in_buf[in_len++] = p[i]; }
int main(void) {
	int idx[VF_TLVS];
	for(int cnt = 0; cnt <= VF_TLVS; cnt++) {
		long total = 1; for(int i = 0; i < cnt; i++) total *= NT;
		for(long code = 0; code < total; code++) {
			long c = code; size_t body = 0;
			for(int i = 0; i < cnt; i++) { idx[i] = (int)(c % NT); c /= NT; body += TPL[idx[i]][0]; }
			if(body > 18) continue;
			for(int form = 0; form < 5; form++) {
				memset(in_buf, 0, VF_N); in_len = 0;
				unsigned char h[3]; size_t hn = 0; h[hn++] = 0x30;
				if(form == 0) h[hn++] = (unsigned char)body;
				else if(form == 1) h[hn++] = (unsigned char)(body ? body - 1 : 0);
				else if(form == 2) h[hn++] = (unsigned char)(body + 1);
				else if(form == 3) { h[hn++] = 0x81; h[hn++] = (unsigned char)body; }
				else h[hn++] = 0x80;
				put(h, hn);
				for(int i = 0; i < cnt; i++) put(TPL[idx[i]] + 1, TPL[idx[i]][0]);
				if(form == 4) put((const unsigned char *)"\0\0", 2);
				all_cuts();
			}
		}
	}
	return VF_GRID_SUMMARY();
}
