/* SET over DER (C02, C06, C07, C14): the real SET_encode_der (with der_write_tags, asn_TYPE_outmost_tag, _t2e_cmp) over a
 * hand-laid descriptor of the shape asn1c emits for a SET that contains an untagged CHOICE (so that the encoder builds and
 * sorts its own tag map):   S ::= SET { a [2] SV, b [0] SV OPTIONAL, c CHOICE { [1] SV, [3] SV } }
 * Member type is a harness stub: DER = <tag> 01 v0 (for c the tag is [1] when v1 == 0, else [3]); v0 == 0xFF cannot be encoded.
 * Expected (X.690 10.3): 31 L followed by the present members in ascending order of their tags. */
#include <vf.h>
#include <vf_cb.h>
#include <asn_internal.h>
#include <constr_SET.h>
#include "constr_SET.c"

struct sv { uint8_t v[2]; };
struct S { struct sv a; struct sv *b; struct sv c; unsigned int _presence_map[1]; asn_struct_ctx_t _asn_ctx; };
#define CTX(n) ((ber_tlv_tag_t)((n) << 2) | ASN_TAG_CLASS_CONTEXT)
static asn_TYPE_descriptor_t sv_td, svc_td, S_td;
static asn_TYPE_operation_t sv_op, svc_op;
static asn_TYPE_member_t S_elems[3];
static asn_SET_specifics_t S_specs;
static asn_TYPE_tag2member_t S_tag2el[4];
static const ber_tlv_tag_t S_tags[1] = { (ber_tlv_tag_t)(17 << 2) | ASN_TAG_CLASS_UNIVERSAL };

static ber_tlv_tag_t c_tag(const struct sv *s) { return s->v[1] ? CTX(3) : CTX(1); }
static asn_enc_rval_t put(const asn_TYPE_descriptor_t *td, const struct sv *s, ber_tlv_tag_t tag, asn_app_consume_bytes_f *cb, void *key) {
	asn_enc_rval_t er; uint8_t out[3];
	er.failed_type = 0; er.structure_ptr = 0;
	out[0] = 0x80 | (uint8_t)(tag >> 2); out[1] = 1; out[2] = s->v[0];
	if(s->v[0] == 0xFF || (cb && cb(out, 3, key) < 0)) { er.encoded = -1; er.failed_type = td; er.structure_ptr = s; return er; }
	er.encoded = 3;
	return er;
}
static asn_enc_rval_t sv_der(const asn_TYPE_descriptor_t *td, const void *sptr, int tag_mode, ber_tlv_tag_t tag, asn_app_consume_bytes_f *cb, void *key) {
	(void)tag_mode; return put(td, (const struct sv *)sptr, tag, cb, key);
}
static asn_enc_rval_t svc_der(const asn_TYPE_descriptor_t *td, const void *sptr, int tag_mode, ber_tlv_tag_t tag, asn_app_consume_bytes_f *cb, void *key) {
	(void)tag_mode; (void)tag; return put(td, (const struct sv *)sptr, c_tag((const struct sv *)sptr), cb, key);
}
static ber_tlv_tag_t svc_outmost(const asn_TYPE_descriptor_t *td, const void *sptr, int tag_mode, ber_tlv_tag_t tag) {
	(void)td; (void)tag_mode; (void)tag; return c_tag((const struct sv *)sptr);
}
static void member(asn_TYPE_member_t *e, enum asn_TYPE_flags_e flags, unsigned optional, unsigned off, ber_tlv_tag_t tag, int tag_mode, asn_TYPE_descriptor_t *type, const char *name) {
	memset(e, 0, sizeof(*e)); e->flags = flags; e->optional = optional; e->memb_offset = off; e->tag = tag; e->tag_mode = tag_mode; e->type = type; e->name = name;
}
static void setup(void) {
	memset(&sv_op, 0, sizeof(sv_op)); sv_op.der_encoder = sv_der;
	memset(&svc_op, 0, sizeof(svc_op)); svc_op.der_encoder = svc_der; svc_op.outmost_tag = svc_outmost;
	memset(&sv_td, 0, sizeof(sv_td)); sv_td.name = "SV"; sv_td.op = &sv_op;
	memset(&svc_td, 0, sizeof(svc_td)); svc_td.name = "SVC"; svc_td.op = &svc_op;
	member(&S_elems[0], ATF_NOFLAGS, 0, offsetof(struct S, a), CTX(2), -1, &sv_td, "a");
	member(&S_elems[1], ATF_POINTER, 1, offsetof(struct S, b), CTX(0), -1, &sv_td, "b");
	member(&S_elems[2], ATF_NOFLAGS, 0, offsetof(struct S, c), (ber_tlv_tag_t)-1, 0, &svc_td, "c");
	memset(S_tag2el, 0, sizeof(S_tag2el));
	S_tag2el[0].el_tag = CTX(0); S_tag2el[0].el_no = 1; S_tag2el[1].el_tag = CTX(1); S_tag2el[1].el_no = 2;
	S_tag2el[2].el_tag = CTX(2); S_tag2el[2].el_no = 0; S_tag2el[3].el_tag = CTX(3); S_tag2el[3].el_no = 2;
	memset(&S_specs, 0, sizeof(S_specs)); S_specs.struct_size = sizeof(struct S); S_specs.ctx_offset = offsetof(struct S, _asn_ctx);
	S_specs.pres_offset = offsetof(struct S, _presence_map); S_specs.tag2el = S_tag2el; S_specs.tag2el_count = 4;
	memset(&S_td, 0, sizeof(S_td)); S_td.name = "S"; S_td.tags = S_tags; S_td.tags_count = 1; S_td.all_tags = S_tags; S_td.all_tags_count = 1;
	S_td.elements = S_elems; S_td.elements_count = 3; S_td.specifics = &S_specs;
}

void h_SET_encode_der(void) {
	VF_BYTES(vals, 6); VF_SCALAR(int, has_b); VF_SCALAR(long, fail_at);
	__CPROVER_assume(fail_at >= -1 && fail_at <= 6);
	setup();
	struct S s; struct sv vb; memset(&s, 0, sizeof(s));
	s.a.v[0] = vals[0]; s.a.v[1] = vals[1]; vb.v[0] = vals[2]; vb.v[1] = vals[3]; s.c.v[0] = vals[4]; s.c.v[1] = vals[5];
	s.b = has_b ? &vb : 0;
	int bad = s.a.v[0] == 0xFF || (has_b && vb.v[0] == 0xFF) || s.c.v[0] == 0xFF;
	unsigned char exp[2 + 9]; size_t n = 2; exp[0] = 0x31;
	if(has_b) { exp[n++] = 0x80; exp[n++] = 1; exp[n++] = vb.v[0]; }
	if(!s.c.v[1]) { exp[n++] = 0x81; exp[n++] = 1; exp[n++] = s.c.v[0]; }
	exp[n++] = 0x82; exp[n++] = 1; exp[n++] = s.a.v[0];
	if(s.c.v[1]) { exp[n++] = 0x83; exp[n++] = 1; exp[n++] = s.c.v[0]; }
	exp[1] = (unsigned char)(n - 2);
	vf_cb_fail_at = fail_at;
	asn_enc_rval_t er = SET_encode_der(&S_td, &s, 0, 0, vf_cb, 0);
	VF_CANARY();
	if(bad) { __CPROVER_assert(er.encoded == -1, "C07: a member that cannot be encoded makes the call fail"); return; }
	if(vf_cb_failed) { __CPROVER_assert(er.encoded == -1, "C07: a failing output callback makes the call fail"); return; }
	if(er.encoded == -1) return;         /* an allocation failed: clean failure (leak and pointer checks cover the rest) */
	__CPROVER_assert(er.encoded == (ssize_t)n && vf_cb_bytes == n, "C02/C07: size of the encoding equals the bytes delivered");
	for(size_t i = 0; i < sizeof(exp); i++) if(i < n) __CPROVER_assert(vf_cb_log[i] == exp[i], "C02/C06: DER SET: present members in ascending order of their tags, whatever their order in the type");
}

VF_NATIVE_MAIN
