/* bounded stand-in (native grid): the XER engine on longer documents than the CBMC obligation xer_decode_general.t8 reaches.
 * Assertions of harness/h_xer.c (C03 against the independent reading, C04, C05 two-chunk split), evaluated natively under
 * ASan/UBSan on every concatenation of at most VF_PARTS of the fragments below (whitespace, comments incl. tricky dash runs,
 * opening / closing / empty tags of T and of a foreign element, attributes, text, stray angle brackets) x every truncation x
 * every split point. */
#define VF_GRID 1
#define VF_N 40
#include "h_xer.c"
#ifndef VF_PARTS
#define VF_PARTS 4
#endif
static unsigned char in_buf[VF_N]; static size_t in_len;
static void run(size_t size, size_t k) {
	vf_grid_n = 0;
	vf_grid_tab[vf_grid_n++] = (struct vf_grid_in){ "buf", 0, in_buf, VF_N };
	vf_grid_tab[vf_grid_n++] = (struct vf_grid_in){ "size", size, 0, 0 };
	vf_grid_tab[vf_grid_n++] = (struct vf_grid_in){ "k", k, 0, 0 };
	VF_GRID_RUN(h_xer_decode_general);
}
static void all_cuts(void) { for(size_t size = 0; size <= in_len; size++) for(size_t k = 0; k <= size; k++) run(size, k); }
static const char *FR[] = { " ", "\n\t", "<!---->", "<!-- c -->", "<!--a--b-->", "<!--->-->", "<T>", "</T>", "<T/>", "<T a=\"1\">", "<T a='>'>", "<U>", "</U>", "ab", "0A 1b", "<", ">", "&lt;", "<T", "-->" };
#define NF (sizeof(FR) / sizeof(FR[0]))
int main(void) {
	int idx[VF_PARTS];
	for(int cnt = 0; cnt <= VF_PARTS; cnt++) {
		long total = 1; for(int i = 0; i < cnt; i++) total *= (long)NF;
		for(long code = 0; code < total; code++) {
			long c = code; memset(in_buf, 0, VF_N); in_len = 0; int fits = 1;
			for(int i = 0; i < cnt; i++) { idx[i] = (int)(c % (long)NF); c /= (long)NF; size_t l = strlen(FR[idx[i]]); if(in_len + l > VF_N) { fits = 0; break; } memcpy(in_buf + in_len, FR[idx[i]], l); in_len += l; }
			if(fits) all_cuts();
		}
	}
	return VF_GRID_SUMMARY();
}
