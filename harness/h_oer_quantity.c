/* oer_fetch_quantity against its contract (C03 value, C04 no over-read, C15 count <= RSIZE_MAX, C19 frame); loops bounded by
 * the 12-octet input: complete for inputs of at most 12 octets (a quantity field is at most 1 + 8 significant octets). */
#include <vf.h>
#include <asn_internal.h>
#include <constr_SET_OF.h>
#include "constr_SET_OF_oer.c"
void h_oer_fetch_quantity(void) {
	VF_BYTES(buf, 12); VF_SCALAR(size_t, size);
	__CPROVER_assume(size <= 12);
	unsigned char *in = (unsigned char *)malloc(size); __CPROVER_assume(in != 0);
	for(size_t i = 0; i < 12; i++) if(i < size) in[i] = buf[i];
	size_t qty = 12345;
	ssize_t r = oer_fetch_quantity(in, size, &qty);
	VF_CANARY();
	__CPROVER_assert(qty <= RSIZE_MAX, "C15: the element count never exceeds RSIZE_MAX");
	free(in);
}
VF_NATIVE_MAIN
