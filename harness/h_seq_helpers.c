/* _t2e_cmp of constr_SEQUENCE.c against its contract (C03/C05: member lookup by tag; C19: frame).  Loop-free: complete. */
#include <vf.h>
#include <asn_internal.h>
#include <constr_SEQUENCE.h>
#include "constr_SEQUENCE.c"
void h_t2e_cmp(void) {
	asn_TYPE_tag2member_t a, b;
	VF_SCALAR(ber_tlv_tag_t, ta); VF_SCALAR(ber_tlv_tag_t, tb); VF_SCALAR(unsigned, ea); VF_SCALAR(unsigned, eb);
	memset(&a, 0, sizeof(a)); memset(&b, 0, sizeof(b)); a.el_tag = ta; b.el_tag = tb; a.el_no = ea; b.el_no = eb;
	int r = _t2e_cmp(&a, &b);
	VF_CANARY();
	__CPROVER_assert((ta == tb) || (r != 0), "C03: different tags never match");
}
VF_NATIVE_MAIN
