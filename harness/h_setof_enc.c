/* SET OF over DER (C02, C06, C07, C14): the real SET_OF_encode_der, SET_OF__encode_sorted, _el_addbytes, _el_buf_cmp and
 * der_write_tags run over a list of up to 3 stub elements.  Element DER = 80 <len> v0 [v1] (len 2 when v1 != 0),
 * delivered in two chunks (header, contents) so that the element buffer grows twice; v0 == 0xFF cannot be encoded.
 * Expected output (X.690 11.6): 31 L followed by the element encodings in ascending order as octet strings. */
#include <vf.h>
#include <vf_cb.h>
#include <asn_internal.h>
#include <constr_SET_OF.h>
#include "constr_SET_OF.c"

#ifndef VF_COUNT
#define VF_COUNT 3
#endif
struct sv { uint8_t v[2]; };
struct L { A_SET_OF(struct sv) list; asn_struct_ctx_t _asn_ctx; };
static asn_TYPE_descriptor_t sv_td, L_td;
static asn_TYPE_operation_t sv_op;
static asn_TYPE_member_t L_elems[1];
static asn_SET_OF_specifics_t L_specs;
static const ber_tlv_tag_t L_tags[1] = { (ber_tlv_tag_t)(17 << 2) | ASN_TAG_CLASS_UNIVERSAL };

static asn_enc_rval_t sv_der(const asn_TYPE_descriptor_t *td, const void *sptr, int tag_mode, ber_tlv_tag_t tag, asn_app_consume_bytes_f *cb, void *key) {
	asn_enc_rval_t er; const struct sv *s = (const struct sv *)sptr; uint8_t hdr[2]; size_t n = s->v[1] ? 2 : 1;
	(void)tag_mode; (void)tag;
	er.failed_type = 0; er.structure_ptr = 0;
	if(s->v[0] == 0xFF) { er.encoded = -1; er.failed_type = td; er.structure_ptr = sptr; return er; }
	hdr[0] = 0x80; hdr[1] = (uint8_t)n;
	if(cb && (cb(hdr, 2, key) < 0 || cb(s->v, n, key) < 0)) { er.encoded = -1; er.failed_type = td; er.structure_ptr = sptr; return er; }
	er.encoded = 2 + n;
	return er;
}
static void setup(void) {
	memset(&sv_op, 0, sizeof(sv_op)); sv_op.der_encoder = sv_der;
	memset(&sv_td, 0, sizeof(sv_td)); sv_td.name = "SV"; sv_td.op = &sv_op;
	memset(L_elems, 0, sizeof(L_elems)); L_elems[0].flags = ATF_POINTER; L_elems[0].tag = (ber_tlv_tag_t)(0 << 2) | ASN_TAG_CLASS_CONTEXT; L_elems[0].type = &sv_td; L_elems[0].name = "";
	memset(&L_specs, 0, sizeof(L_specs)); L_specs.struct_size = sizeof(struct L); L_specs.ctx_offset = offsetof(struct L, _asn_ctx);
	memset(&L_td, 0, sizeof(L_td)); L_td.name = "L"; L_td.tags = L_tags; L_td.tags_count = 1; L_td.all_tags = L_tags; L_td.all_tags_count = 1;
	L_td.elements = L_elems; L_td.elements_count = 1; L_td.specifics = &L_specs;
}
/* order of the encodings 80 01 x / 80 02 x y as octet strings */
static int before(const struct sv *a, const struct sv *b) {
	int la = a->v[1] ? 2 : 1, lb = b->v[1] ? 2 : 1;
	if(la != lb) return la < lb;
	if(a->v[0] != b->v[0]) return a->v[0] < b->v[0];
	return a->v[1] <= b->v[1];
}
static size_t put(unsigned char *o, const struct sv *s) { o[0] = 0x80; o[1] = s->v[1] ? 2 : 1; o[2] = s->v[0]; if(s->v[1]) { o[3] = s->v[1]; return 4; } return 3; }

void h_SET_OF_encode_der(void) {
	VF_BYTES(vals, 6); VF_SCALAR(long, fail_at);
	const int count = VF_COUNT;          /* compile-time: calloc(count, ...) with a symbolic count exhausts the SAT back end */
	__CPROVER_assume(fail_at >= -1 && fail_at <= 6);
	setup();
	struct sv e[3]; struct sv *arr[3]; struct L l;
	for(int i = 0; i < 3; i++) { e[i].v[0] = vals[2 * i]; e[i].v[1] = vals[2 * i + 1]; arr[i] = &e[i]; }
	memset(&l, 0, sizeof(l)); l.list.array = arr; l.list.count = count; l.list.size = 3;
	int bad = 0;
	for(int i = 0; i < 3; i++) if(i < count && e[i].v[0] == 0xFF) bad = 1;
	/* expected: the elements in ascending order of their encodings */
	const struct sv *s[3] = { &e[0], &e[1], &e[2] }; const struct sv *t;
	if(count >= 2 && !before(s[0], s[1])) { t = s[0]; s[0] = s[1]; s[1] = t; }
	if(count >= 3 && !before(s[1], s[2])) { t = s[1]; s[1] = s[2]; s[2] = t; }
	if(count >= 3 && !before(s[0], s[1])) { t = s[0]; s[0] = s[1]; s[1] = t; }
	unsigned char exp[2 + 12]; size_t n = 2;
	for(int i = 0; i < 3; i++) if(i < count) n += put(exp + n, s[i]);
	exp[0] = 0x31; exp[1] = (unsigned char)(n - 2);
	vf_cb_fail_at = fail_at;
	asn_enc_rval_t er = SET_OF_encode_der(&L_td, &l, 0, 0, vf_cb, 0);
	VF_CANARY();
	if(bad) { __CPROVER_assert(er.encoded == -1, "C07: an element that cannot be encoded makes the call fail"); return; }
	if(vf_cb_failed) { __CPROVER_assert(er.encoded == -1, "C07: a failing output callback makes the call fail"); return; }
	if(er.encoded == -1) return;         /* an allocation failed: clean failure (the leak and pointer checks cover the rest) */
	__CPROVER_assert(er.encoded == (ssize_t)n && (size_t)er.encoded == vf_cb_bytes, "C07: reported size equals the bytes delivered");
	for(size_t i = 0; i < sizeof(exp); i++) if(i < n) __CPROVER_assert(vf_cb_log[i] == exp[i], "C02/C06: DER SET OF: elements in ascending order of their encodings, whatever their order in memory");
}

VF_NATIVE_MAIN
