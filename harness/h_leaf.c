/* loop-free leaf functions against their contracts (contracts/leaf.h): one call each, every input */
#include <vf.h>
#include <asn_internal.h>
#include <asn_bit_data.h>
#include <BOOLEAN.h>
#include <NULL.h>
#include <NativeInteger.h>

void h_asn_get_undo(void) {
	asn_bit_data_t pd; VF_SCALAR(size_t, nboff); VF_SCALAR(size_t, nbits); VF_SCALAR(size_t, moved); VF_SCALAR(int, n);
	memset(&pd, 0, sizeof(pd)); pd.nboff = nboff; pd.nbits = nbits; pd.moved = moved;
	__CPROVER_assume(nboff <= nbits && nbits <= ((size_t)1 << 40) && moved >= nboff && moved <= ((size_t)1 << 41) && n >= 0);
	asn_get_undo(&pd, n);
	VF_CANARY();
	__CPROVER_assert(pd.nbits == nbits && pd.buffer == 0 && pd.refill == 0 && pd.refill_key == 0, "C19: only the position fields change");
	__CPROVER_assert(pd.nboff <= nbits, "C04: the position stays inside the stream");
}
void h_BOOLEAN_compare(void) {
	VF_SCALAR(BOOLEAN_t, a); VF_SCALAR(BOOLEAN_t, b); VF_SCALAR(int, na); VF_SCALAR(int, nb);
	int r = BOOLEAN_compare(0, na ? 0 : &a, nb ? 0 : &b);
	VF_CANARY();
	if(!na && !nb && a == b) __CPROVER_assert(r == 0, "C01: a value compares equal to itself");
}
void h_NULL_compare(void) { int r = NULL_compare(0, 0, 0); VF_CANARY(); __CPROVER_assert(r == 0, "C01: NULL values are equal"); }
void h_NativeInteger_compare(void) {
	VF_SCALAR(long, a); VF_SCALAR(long, b); VF_SCALAR(int, na); VF_SCALAR(int, nb); VF_SCALAR(int, uns); VF_SCALAR(int, nospecs);
	asn_INTEGER_specifics_t sp; asn_TYPE_descriptor_t td; memset(&sp, 0, sizeof(sp)); memset(&td, 0, sizeof(td));
	sp.field_unsigned = uns != 0; td.specifics = nospecs ? 0 : &sp;
	int r = NativeInteger_compare(&td, na ? 0 : &a, nb ? 0 : &b);
	VF_CANARY();
	if(!na && !nb && a == b) __CPROVER_assert(r == 0, "C01: a value compares equal to itself");
}
VF_NATIVE_MAIN
