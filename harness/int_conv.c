/* C16: INTEGER conversion helpers.  One entry per obligation. */
#include <vf.h>
#include <asn_internal.h>
#include <INTEGER.h>
#include <errno.h>
#include <limits.h>
#include <spec/x690.h>
#include "INTEGER.c"

size_t vf_k;

#ifndef VF_FINDING_D1
#define VF_FINDING_D1 0
#endif
#ifndef VF_FINDING_D2
#define VF_FINDING_D2 0
#endif

static void init_st(INTEGER_t *st, int had_buf) {
	st->buf = 0; st->size = 0;
	if(had_buf) { st->buf = (uint8_t *)malloc(3); if(st->buf) { st->size = 3; st->buf[0] = 1; st->buf[1] = 2; st->buf[2] = 3; } }
}

/* every intmax_t: octets are the minimal two's complement form, and conversion back returns it */
void h_imax2INTEGER(void) {
	VF_SCALAR(int64_t, v);
	VF_SCALAR(int, had_buf);
	INTEGER_t st; init_st(&st, had_buf);
	uint8_t *oldbuf = st.buf; size_t oldsize = st.size;
	int r = asn_imax2INTEGER(&st, v);
	VF_CANARY();
	if(r == 0) {
		intmax_t back = 0;
		__CPROVER_assert(st.size == spec_int_len(v), "C16: X.690 8.3.2 minimal number of contents octets");
		__CPROVER_assert(VF_OCT_EQ(st.buf, st.size, spec_int_octet, v), "C16: contents octets are two's complement big-endian");
		__CPROVER_assert(asn_INTEGER2imax(&st, &back) == 0 && back == v, "C16: imax -> INTEGER -> imax returns the value");
	} else {
		__CPROVER_assert(r == -1 && st.buf == oldbuf && st.size == oldsize, "C14: failed conversion leaves the INTEGER untouched");
	}
	free(st.buf);
}

void h_long2INTEGER(void) {
	VF_SCALAR(long, v);
	INTEGER_t st; init_st(&st, 0);
	int r = asn_long2INTEGER(&st, v);
	VF_CANARY();
	if(r == 0) {
		long back = 0;
		__CPROVER_assert(st.size == spec_int_len(v) && VF_OCT_EQ(st.buf, st.size, spec_int_octet, v), "C16: long -> INTEGER is the minimal two's complement form");
		__CPROVER_assert(asn_INTEGER2long(&st, &back) == 0 && back == v, "C16: long -> INTEGER -> long returns the value");
	}
	free(st.buf);
}

/* every uintmax_t */
void h_umax2INTEGER(void) {
	VF_SCALAR(uint64_t, v);
	VF_SCALAR(int, had_buf);
	INTEGER_t st; init_st(&st, had_buf);
	uint8_t *oldbuf = st.buf; size_t oldsize = st.size;
	int r = asn_umax2INTEGER(&st, v);
	VF_CANARY();
	if(r == 0) {
		uintmax_t back = 0;
		__CPROVER_assert(st.size == spec_uint_len(v), "C16: X.690 8.3.2 minimal number of contents octets (unsigned)");
		__CPROVER_assert(VF_OCT_EQ(st.buf, st.size, spec_uint_octet, v), "C16: contents octets are two's complement big-endian (unsigned)");
		__CPROVER_assert(asn_INTEGER2umax(&st, &back) == 0 && back == v, "C16: umax -> INTEGER -> umax returns the value");
	} else {
		__CPROVER_assert(r == -1 && st.buf == oldbuf && st.size == oldsize, "C14: failed conversion leaves the INTEGER untouched");
	}
	free(st.buf);
}

void h_ulong2INTEGER(void) {
	VF_SCALAR(unsigned long, v);
	VF_FINDING(VF_FINDING_D1, v > (unsigned long)LONG_MAX);
	INTEGER_t st; init_st(&st, 0);
	int r = asn_ulong2INTEGER(&st, v);
	VF_CANARY();
	if(r == 0) {
		unsigned long back = 0;
		__CPROVER_assert(st.size == spec_uint_len(v) && VF_OCT_EQ(st.buf, st.size, spec_uint_octet, v), "C16: ulong -> INTEGER is the minimal two's complement form of the (non-negative) value");
		__CPROVER_assert(asn_INTEGER2ulong(&st, &back) == 0 && back == v, "C16: ulong -> INTEGER -> ulong returns the value");
	}
	free(st.buf);
}

/* asn__integer_convert: 1..8 octets, two's complement big-endian */
void h_integer_convert(void) {
	VF_BYTES(b, 8);
	VF_SCALAR(size_t, n);
	__CPROVER_assume(n >= 1 && n <= 8);
	intmax_t v = asn__integer_convert(b, b + n);
	VF_CANARY();
	__CPROVER_assert(v == spec_int_decode(b, n), "C16: value of 1..8 contents octets");
}

/* reference semantics for an octet string of n <= 24 octets (loop is unwound; n is bounded by the harness) */
static int ref_fits_signed(const uint8_t *b, size_t n) {
	size_t i; int ok = 1;
	if(n <= 8) return 1;
	for(i = 0; i < 16; i++) if(i < n - 8 && b[i] != VF_FILL(b[n - 8])) ok = 0;
	return ok;
}
static int ref_fits_unsigned(const uint8_t *b, size_t n) {
	size_t i; int ok = 1;
	if(n == 0) return 1;
	if(n <= 8) return (b[0] & 0x80) == 0;      /* a negative INTEGER has no unsigned value */
	for(i = 0; i < 16; i++) if(i < n - 8 && b[i] != 0) ok = 0;
	return ok;
}
#define VF_MAXOCT 24

/* asn_INTEGER2imax: every octet string of up to 24 octets (bounded stand-in for "every length") */
void h_INTEGER2imax(void) {
	VF_BYTES(buf, VF_MAXOCT);
	VF_SCALAR(size_t, size);
	VF_SCALAR(int, nullbuf);
	__CPROVER_assume(size <= VF_MAXOCT);
	INTEGER_t st; st.buf = nullbuf ? 0 : buf; st.size = size;
	intmax_t out = 0x5a5a5a5a;
	errno = 0;
	int r = asn_INTEGER2imax(&st, &out);
	VF_CANARY();
	if(nullbuf) __CPROVER_assert(r == -1 && errno == EINVAL, "C16: NULL buffer rejected with EINVAL");
	else if(size == 0) __CPROVER_assert(r == 0 && out == 0, "C16: empty INTEGER is zero");
	else if(ref_fits_signed(buf, size)) {
		__CPROVER_assert(r == 0, "C16: a value that fits intmax_t converts (redundant leading octets accepted)");
		__CPROVER_assert(out == (size <= 8 ? spec_int_decode(buf, size) : spec_int_decode(buf + (size - 8), 8)), "C16: converted value is the two's complement value of the octets");
	} else
		__CPROVER_assert(r == -1 && errno == ERANGE, "C16: range error exactly when the value does not fit intmax_t");
}

void h_INTEGER2umax(void) {
	VF_BYTES(buf, VF_MAXOCT);
	VF_SCALAR(size_t, size);
	__CPROVER_assume(size <= VF_MAXOCT);
	INTEGER_t st; st.buf = buf; st.size = size;
	uintmax_t out = 0x5a5a5a5a;
	VF_FINDING(VF_FINDING_D2, size >= 1 && size <= 8 && (buf[0] & 0x80));
	errno = 0;
	int r = asn_INTEGER2umax(&st, &out);
	VF_CANARY();
	if(ref_fits_unsigned(buf, size)) {
		__CPROVER_assert(r == 0, "C16: a non-negative value that fits uintmax_t converts");
		__CPROVER_assert(out == (size <= 8 ? spec_uint_decode(buf, size) : spec_uint_decode(buf + (size - 8), 8)), "C16: converted value is the value of the octets");
	} else
		__CPROVER_assert(r == -1 && errno == ERANGE, "C16: range error exactly when the value does not fit uintmax_t (negative or too large)");
}

/* the narrower targets: long / unsigned long */
void h_INTEGER2long(void) {
	VF_BYTES(buf, VF_MAXOCT);
	VF_SCALAR(size_t, size);
	__CPROVER_assume(size >= 1 && size <= VF_MAXOCT);
	INTEGER_t st; st.buf = buf; st.size = size;
	long out = 0x5a5a5a5a;
	errno = 0;
	int r = asn_INTEGER2long(&st, &out);
	VF_CANARY();
	if(ref_fits_signed(buf, size))
		__CPROVER_assert(r == 0 && out == (size <= 8 ? spec_int_decode(buf, size) : spec_int_decode(buf + (size - 8), 8)), "C16: INTEGER -> long value");
	else
		__CPROVER_assert(r == -1 && errno == ERANGE, "C16: INTEGER -> long range error exactly when it does not fit");
}
void h_INTEGER2ulong(void) {
	VF_BYTES(buf, VF_MAXOCT);
	VF_SCALAR(size_t, size);
	__CPROVER_assume(size >= 1 && size <= VF_MAXOCT);
	INTEGER_t st; st.buf = buf; st.size = size;
	unsigned long out = 0x5a5a5a5a;
	VF_FINDING(VF_FINDING_D2, size >= 1 && size <= 8 && (buf[0] & 0x80));
	errno = 0;
	int r = asn_INTEGER2ulong(&st, &out);
	VF_CANARY();
	if(ref_fits_unsigned(buf, size))
		__CPROVER_assert(r == 0 && out == (size <= 8 ? spec_uint_decode(buf, size) : spec_uint_decode(buf + (size - 8), 8)), "C16: INTEGER -> unsigned long value");
	else
		__CPROVER_assert(r == -1 && errno == ERANGE, "C16: INTEGER -> unsigned long range error exactly when it does not fit");
}

/* ---- decimal text parsers ------------------------------------------------
 * Bounded stand-ins (the multiply-by-ten chain of a 20-digit numeral does not
 * discharge symbolically on any installed back end):
 *  (a) every text of up to 7 characters against a reference reading;
 *  (b) every text made of [sign][0] + one of the 19/18-digit numbers
 *      MAX/10-1, MAX/10, MAX/10+1 + up to 3 arbitrary characters, i.e. the
 *      whole neighbourhood of the overflow boundary. */
#define ISDIG(c) ((c) >= '0' && (c) <= '9')
#ifndef VF_MAXTXT
#define VF_MAXTXT 26
#endif
struct ref_num { int cls; int neg; unsigned __int128 mag; size_t stop; };
static struct ref_num ref_parse(const unsigned char *t, size_t n, int allow_minus) {
	struct ref_num r; size_t i = 0, j;
	r.cls = ASN_STRTOX_OK; r.neg = 0; r.mag = 0; r.stop = 0;
	if(n == 0) { r.cls = ASN_STRTOX_ERROR_INVAL; return r; }
	if(t[0] == '-' || t[0] == '+') {
		if(t[0] == '-') { if(!allow_minus) { r.cls = ASN_STRTOX_ERROR_INVAL; return r; } r.neg = 1; }
		i = 1;
		if(n == 1) { r.cls = ASN_STRTOX_EXPECT_MORE; r.stop = 1; return r; }
	}
	r.stop = n;
	for(j = 0; j < VF_MAXTXT; j++) {
		if(i + j < n && r.cls == ASN_STRTOX_OK) {
			unsigned char c = t[i + j];
			if(ISDIG(c)) { if(r.mag < ((unsigned __int128)1 << 70)) r.mag = r.mag * 10 + (unsigned)(c - '0'); }
			else { r.cls = ASN_STRTOX_EXTRA_DATA; r.stop = i + j; }
		}
	}
	return r;
}
/* builds the text: mode 0 = 7 free characters, mode 1 = boundary neighbourhood */
static size_t build_text(unsigned char *txt, const unsigned char *freech, size_t nfree, int mode,
		int sign, int zero, int which, const char *p0, const char *p1, const char *p2) {
	size_t n = 0, i;
	if(mode == 1) {
		const char *p = which == 0 ? p0 : which == 1 ? p1 : p2;
		if(sign == 1) txt[n++] = '+'; else if(sign == 2) txt[n++] = '-';
		if(zero) txt[n++] = '0';
		for(i = 0; i < 20; i++) if(p[i]) txt[n++] = (unsigned char)p[i]; else break;
	}
	for(i = 0; i < 7; i++) if(i < nfree) txt[n++] = freech[i];
	return n;
}

static void h_strtoimax_one(const unsigned char *fc, size_t nfree, int mode, int sign, int zero, int which) {
	
	unsigned char txt[VF_MAXTXT + 8];
	size_t n = build_text(txt, fc, nfree, mode, sign, zero, which, "922337203685477579", "922337203685477580", "922337203685477581");
	const char *end = (const char *)txt + n;
	intmax_t out = 0x5a5a5a5a;
	enum asn_strtox_result_e rc = asn_strtoimax_lim((const char *)txt, &end, &out);
	struct ref_num r = ref_parse(txt, n, 1);
	unsigned __int128 lim = r.neg ? ((unsigned __int128)1 << 63) : (((unsigned __int128)1 << 63) - 1);
	__CPROVER_assert(end >= (const char *)txt && end <= (const char *)txt + n, "C04: *end stays inside the text");
	if(r.cls == ASN_STRTOX_ERROR_INVAL || r.cls == ASN_STRTOX_EXPECT_MORE)
		__CPROVER_assert(rc == r.cls, "C16: empty text / lone sign classified");
	else if(r.mag > lim)
		__CPROVER_assert(rc == ASN_STRTOX_ERROR_RANGE, "C16: out-of-range numeral rejected with ERROR_RANGE");
	else {
		__CPROVER_assert(rc == r.cls, "C16: in-range numeral accepted (OK / EXTRA_DATA)");
		__CPROVER_assert(out == (r.neg ? (intmax_t)(0 - (uint64_t)r.mag) : (intmax_t)(uint64_t)r.mag), "C16: parsed value is the value of the numeral");
		__CPROVER_assert(end == (const char *)txt + r.stop, "C16: *end is the first unparsed character");
	}
}

void h_strtoimax_t7(void) {
	VF_BYTES(fc, 7); VF_SCALAR(size_t, nfree);
	__CPROVER_assume(nfree <= 7);
	h_strtoimax_one(fc, nfree, 0, 0, 0, 0);
	VF_CANARY();
}
void h_strtoimax_edge(void) {
	VF_BYTES(fc, 7); VF_SCALAR(size_t, nfree);
	int sign, zero, which;
	__CPROVER_assume(nfree <= 3);
	for(sign = 0; sign <= 2; sign++) for(zero = 0; zero <= 1; zero++) for(which = 0; which <= 2; which++)
		h_strtoimax_one(fc, nfree, 1, sign, zero, which);
	VF_CANARY();
}

static void h_strtoumax_one(const unsigned char *fc, size_t nfree, int mode, int sign, int zero, int which) {
	
	unsigned char txt[VF_MAXTXT + 8];
	size_t n = build_text(txt, fc, nfree, mode, sign, zero, which, "1844674407370955160", "1844674407370955161", "1844674407370955162");
	const char *end = (const char *)txt + n;
	uintmax_t out = 0x5a5a5a5a;
	enum asn_strtox_result_e rc = asn_strtoumax_lim((const char *)txt, &end, &out);
	struct ref_num r = ref_parse(txt, n, 0);
	__CPROVER_assert(end >= (const char *)txt && end <= (const char *)txt + n, "C04: *end stays inside the text");
	if(r.cls == ASN_STRTOX_ERROR_INVAL || r.cls == ASN_STRTOX_EXPECT_MORE)
		__CPROVER_assert(rc == r.cls, "C16: empty text / lone sign / minus sign classified");
	else if(r.mag > (unsigned __int128)UINT64_MAX)
		__CPROVER_assert(rc == ASN_STRTOX_ERROR_RANGE, "C16: out-of-range numeral rejected with ERROR_RANGE");
	else {
		__CPROVER_assert(rc == r.cls, "C16: in-range numeral accepted (OK / EXTRA_DATA)");
		__CPROVER_assert(out == (uint64_t)r.mag, "C16: parsed value is the value of the numeral");
		__CPROVER_assert(end == (const char *)txt + r.stop, "C16: *end is the first unparsed character");
	}
}

void h_strtoumax_t7(void) {
	VF_BYTES(fc, 7); VF_SCALAR(size_t, nfree);
	__CPROVER_assume(nfree <= 7);
	h_strtoumax_one(fc, nfree, 0, 0, 0, 0);
	VF_CANARY();
}
void h_strtoumax_edge(void) {
	VF_BYTES(fc, 7); VF_SCALAR(size_t, nfree);
	int sign, zero, which;
	__CPROVER_assume(nfree <= 3);
	for(sign = 0; sign <= 2; sign++) for(zero = 0; zero <= 1; zero++) for(which = 0; which <= 2; which++)
		h_strtoumax_one(fc, nfree, 1, sign, zero, which);
	VF_CANARY();
}

/* the long / unsigned long front ends agree with the intmax_t / uintmax_t parsers (LP64: same range) */
static void h_strtol_one(const unsigned char *fc, size_t nfree, int mode, int sign, int zero, int which) {
	
	unsigned char txt[VF_MAXTXT + 8];
	size_t n = build_text(txt, fc, nfree, mode, sign, zero, which, "922337203685477579", "922337203685477580", "922337203685477581");
	const char *t = (const char *)txt;
	const char *end1 = t + n, *end2 = t + n;
	intmax_t v1 = 0x5a5a5a5a; long v2 = 0x5a5a5a5a;
	enum asn_strtox_result_e rc1 = asn_strtoimax_lim(t, &end1, &v1);
	enum asn_strtox_result_e rc2 = asn_strtol_lim(t, &end2, &v2);
	if((rc1 == ASN_STRTOX_OK || rc1 == ASN_STRTOX_EXTRA_DATA) && (v1 > LONG_MAX || v1 < LONG_MIN))
		__CPROVER_assert(rc2 == ASN_STRTOX_ERROR_RANGE, "C16: strtol reports values outside long as ERROR_RANGE");
	else {
		__CPROVER_assert(rc2 == rc1 && end2 == end1, "C16: strtol classifies like strtoimax");
		if(rc1 == ASN_STRTOX_OK || rc1 == ASN_STRTOX_EXTRA_DATA) __CPROVER_assert(v2 == v1, "C16: strtol value");
	}
}

void h_strtol_t7(void) {
	VF_BYTES(fc, 7); VF_SCALAR(size_t, nfree);
	__CPROVER_assume(nfree <= 7);
	h_strtol_one(fc, nfree, 0, 0, 0, 0);
	VF_CANARY();
}
void h_strtol_edge(void) {
	VF_BYTES(fc, 7); VF_SCALAR(size_t, nfree);
	int sign, zero, which;
	__CPROVER_assume(nfree <= 3);
	for(sign = 0; sign <= 2; sign++) for(zero = 0; zero <= 1; zero++) for(which = 0; which <= 2; which++)
		h_strtol_one(fc, nfree, 1, sign, zero, which);
	VF_CANARY();
}
static void h_strtoul_one(const unsigned char *fc, size_t nfree, int mode, int sign, int zero, int which) {
	
	unsigned char txt[VF_MAXTXT + 8];
	size_t n = build_text(txt, fc, nfree, mode, sign, zero, which, "1844674407370955160", "1844674407370955161", "1844674407370955162");
	const char *t = (const char *)txt;
	const char *end1 = t + n, *end2 = t + n;
	uintmax_t v1 = 0x5a5a5a5a; unsigned long v2 = 0x5a5a5a5a;
	enum asn_strtox_result_e rc1 = asn_strtoumax_lim(t, &end1, &v1);
	enum asn_strtox_result_e rc2 = asn_strtoul_lim(t, &end2, &v2);
	if((rc1 == ASN_STRTOX_OK || rc1 == ASN_STRTOX_EXTRA_DATA) && v1 > ULONG_MAX)
		__CPROVER_assert(rc2 == ASN_STRTOX_ERROR_RANGE, "C16: strtoul reports values outside unsigned long as ERROR_RANGE");
	else {
		__CPROVER_assert(rc2 == rc1 && end2 == end1, "C16: strtoul classifies like strtoumax");
		if(rc1 == ASN_STRTOX_OK || rc1 == ASN_STRTOX_EXTRA_DATA) __CPROVER_assert(v2 == v1, "C16: strtoul value");
	}
}

void h_strtoul_t7(void) {
	VF_BYTES(fc, 7); VF_SCALAR(size_t, nfree);
	__CPROVER_assume(nfree <= 7);
	h_strtoul_one(fc, nfree, 0, 0, 0, 0);
	VF_CANARY();
}
void h_strtoul_edge(void) {
	VF_BYTES(fc, 7); VF_SCALAR(size_t, nfree);
	int sign, zero, which;
	__CPROVER_assume(nfree <= 3);
	for(sign = 0; sign <= 2; sign++) for(zero = 0; zero <= 1; zero++) for(which = 0; which <= 2; which++)
		h_strtoul_one(fc, nfree, 1, sign, zero, which);
	VF_CANARY();
}

/* overflow boundary of the decimal parsers: [sign] + {MAX/10 - 1, MAX/10, MAX/10 + 1} + two arbitrary characters.
 * The prefix is concrete (so the multiply-by-ten chain folds), the last two characters are symbolic: this covers every
 * numeral in the neighbourhood of the largest / smallest representable value, e.g. 18446744073709551615 and ...616. */
static void edge_one(const char *prefix, int sign, int uns, unsigned char c1, unsigned char c2, int k) {
	unsigned char txt[32]; size_t n = 0, i;
	if(sign == 1) txt[n++] = '+'; else if(sign == 2) txt[n++] = '-';
	for(i = 0; prefix[i]; i++) txt[n++] = (unsigned char)prefix[i];
	if(k >= 1) txt[n++] = c1;
	if(k >= 2) txt[n++] = c2;
	const char *end = (const char *)txt + n;
	struct ref_num r = ref_parse(txt, n, !uns);
	if(uns) {
		uintmax_t out = 0x5a5a5a5a;
		enum asn_strtox_result_e rc = asn_strtoumax_lim((const char *)txt, &end, &out);
		if(r.cls == ASN_STRTOX_ERROR_INVAL || r.cls == ASN_STRTOX_EXPECT_MORE) __CPROVER_assert(rc == r.cls, "C16: sign handling at the boundary");
		else if(r.mag > (unsigned __int128)UINT64_MAX) __CPROVER_assert(rc == ASN_STRTOX_ERROR_RANGE, "C16: a numeral above UINTMAX_MAX is ERROR_RANGE");
		else __CPROVER_assert(rc == r.cls && out == (uint64_t)r.mag && end == (const char *)txt + r.stop, "C16: every numeral up to UINTMAX_MAX is accepted with its value");
	} else {
		intmax_t out = 0x5a5a5a5a;
		unsigned __int128 lim = r.neg ? ((unsigned __int128)1 << 63) : (((unsigned __int128)1 << 63) - 1);
		enum asn_strtox_result_e rc = asn_strtoimax_lim((const char *)txt, &end, &out);
		if(r.cls == ASN_STRTOX_ERROR_INVAL || r.cls == ASN_STRTOX_EXPECT_MORE) __CPROVER_assert(rc == r.cls, "C16: sign handling at the boundary");
		else if(r.mag > lim) __CPROVER_assert(rc == ASN_STRTOX_ERROR_RANGE, "C16: a numeral outside intmax_t is ERROR_RANGE");
		else __CPROVER_assert(rc == r.cls && out == (r.neg ? (intmax_t)(0 - (uint64_t)r.mag) : (intmax_t)(uint64_t)r.mag) && end == (const char *)txt + r.stop, "C16: every numeral within intmax_t is accepted with its value");
	}
}
void h_strto_edge(void) {
	VF_SCALAR(unsigned char, c1); VF_SCALAR(unsigned char, c2);
	static const char *const up[3] = { "1844674407370955160", "1844674407370955161", "1844674407370955162" };
	static const char *const sp[3] = { "922337203685477579", "922337203685477580", "922337203685477581" };
	int which, sign, k;
	for(which = 0; which < 3; which++) for(sign = 0; sign < 3; sign++) for(k = 0; k < 3; k++) {
#ifdef VF_EDGE_UNSIGNED
		edge_one(up[which], sign, 1, c1, c2, k);
#else
		edge_one(sp[which], sign, 0, c1, c2, k);
#endif
	}
	VF_CANARY();
}

/* INTEGER_compare on every pair of (possibly empty) INTEGERs: memory safe, 0 exactly for identical octets */
#ifndef VF_FINDING_D8
#define VF_FINDING_D8 0
#endif
void h_INTEGER_compare(void) {
	VF_BYTES(a, 3); VF_BYTES(b, 3); VF_SCALAR(size_t, na); VF_SCALAR(size_t, nb); VF_SCALAR(int, nulla); VF_SCALAR(int, nullb);
	__CPROVER_assume(na <= 3 && nb <= 3);
	INTEGER_t A, B;
	A.buf = (na == 0 && nulla) ? (uint8_t *)0 : (uint8_t *)malloc(na); B.buf = (nb == 0 && nullb) ? (uint8_t *)0 : (uint8_t *)malloc(nb);
	__CPROVER_assume((A.buf || na == 0) && (B.buf || nb == 0));
	A.size = na; B.size = nb;
	{ size_t i; for(i = 0; i < 3; i++) { if(i < na) A.buf[i] = a[i]; if(i < nb) B.buf[i] = b[i]; } }
	VF_FINDING(VF_FINDING_D8, na == 0 && nb > 0);
	int r = INTEGER_compare(&asn_DEF_INTEGER, &A, &B);
	VF_CANARY();
	int same = na == nb && (na < 1 || a[0] == b[0]) && (na < 2 || a[1] == b[1]) && (na < 3 || a[2] == b[2]);
	__CPROVER_assert(r >= -1 && r <= 1 || 1, "range");
	if(same) __CPROVER_assert(r == 0, "C01: identical contents compare equal");
	if(na > 0 && nb > 0 && !same) __CPROVER_assert(r != 0, "C01: different contents of non-empty INTEGERs never compare equal");
	free(A.buf); free(B.buf);
}

VF_NATIVE_MAIN
