/* L0: BER/DER length octets (X.690 8.1.3, 10.1) */
#include <vf.h>
#include <asn_internal.h>
#include <ber_tlv_length.h>
#include <spec/x690.h>
#include "ber_tlv_length.c"

size_t vf_k;
#define VF_LBUF 132

/* ber_fetch_length: the number-of-octets field is 7 bits wide, so at most 1+126 octets matter */
void h_ber_fetch_length(void) {
	VF_BYTES(buf, VF_LBUF);
	VF_SCALAR(size_t, size);
	VF_SCALAR(int, constructed);
	__CPROVER_assume(size <= VF_LBUF);
	ber_tlv_len_t len = 0x5a5a5a5a;
	ssize_t r = ber_fetch_length(constructed, buf, size, &len);
	VF_CANARY();
	/* reference reading of the long form */
	unsigned n = buf[0] & 0x7F, i;
	unsigned __int128 acc = 0; int ovf = 0; unsigned avail = 0;
	for(i = 0; i < 127; i++) if(i < n && 1 + i < size) {
		if(acc >> 64) ovf = 1; else acc = (acc << 8) | buf[1 + i];
		avail = i + 1;
	}
	__CPROVER_assert(r >= -1 && (r <= 0 || (size_t)r <= size), "C04: consumed <= size");
	if(size == 0) __CPROVER_assert(r == 0, "C05: empty input wants more");
	else if(!(buf[0] & 0x80)) __CPROVER_assert(r == 1 && len == buf[0], "X.690 8.1.3.4 short form");
	else if(constructed && buf[0] == 0x80) __CPROVER_assert(r == 1 && len == -1, "X.690 8.1.3.6 indefinite form (constructed only)");
	else if(buf[0] == 0xFF) __CPROVER_assert(r == -1, "X.690 8.1.3.5 c) 0xFF is reserved");
	else if(avail == n && !ovf && acc <= (unsigned __int128)RSSIZE_MAX)
		__CPROVER_assert(r == (ssize_t)(1 + n) && len == (ber_tlv_len_t)acc, "C03: every long form (any number of leading zero octets) is accepted with its value");
	else if(avail == n)
		__CPROVER_assert(r == -1, "C04: length above RSSIZE_MAX is refused");
	else
		__CPROVER_assert(r == 0 || r == -1, "C05: incomplete length octets want more (or already out of range)");
}

/* every proper prefix of an accepted length wants more; extra bytes do not change the result */
void h_ber_fetch_length_prefix(void) {
	VF_BYTES(buf, VF_LBUF);
	VF_SCALAR(size_t, size);
	VF_SCALAR(size_t, cut);
	VF_SCALAR(int, constructed);
	__CPROVER_assume(size <= VF_LBUF && cut <= VF_LBUF);
	ber_tlv_len_t len = 0, len2 = 0;
	ssize_t r = ber_fetch_length(constructed, buf, size, &len);
	ssize_t r2 = ber_fetch_length(constructed, buf, cut, &len2);
	VF_CANARY();
	if(r > 0 && cut < (size_t)r) __CPROVER_assert(r2 == 0, "C05: a proper prefix of the length octets yields 'want more'");
	if(r > 0 && cut >= (size_t)r) __CPROVER_assert(r2 == r && len2 == len, "C05: bytes after the length octets do not matter");
}

/* der_tlv_length_serialize: DER 10.1 minimal definite form, same size for every buffer, bounded writes */
void h_der_tlv_length_serialize(void) {
	VF_SCALAR(ssize_t, len);
	VF_SCALAR(size_t, size);
	uint8_t buf[12] = { 0xEE, 0xEE, 0xEE, 0xEE, 0xEE, 0xEE, 0xEE, 0xEE, 0xEE, 0xEE, 0xEE, 0xEE };
	__CPROVER_assume(len >= 0 && size <= 12);
	size_t r = der_tlv_length_serialize(len, buf, size);
	VF_CANARY();
	size_t n = spec_der_len_len((uint64_t)len);
	__CPROVER_assert(r == n, "C07/C02: reported size is the DER size whatever the buffer size");
	if(size >= n) {
		__CPROVER_assert(VF_OCT_EQ(buf, n, spec_der_len_octet, (uint64_t)len), "C02: X.690 10.1 minimal definite length octets");
		if(len <= RSSIZE_MAX) { ber_tlv_len_t back = -7; __CPROVER_assert(ber_fetch_length(0, buf, n, &back) == (ssize_t)n && back == len, "C01: ber_fetch_length(der_tlv_length_serialize(len)) == len for every len <= RSSIZE_MAX"); }
	}
	__CPROVER_assert((size >= 12 || buf[size < 12 ? size : 11] == 0xEE) && (n >= 12 || size < n || buf[n] == 0xEE), "C07: no write beyond min(size, needed)");
}

/* ber_skip_length: skipping a complete TLV body (definite or nested indefinite) of at most 10 octets */
#include "ber_tlv_tag.c"
void h_ber_skip_length(void) {
	VF_BYTES(b, 6); VF_SCALAR(size_t, size); VF_SCALAR(size_t, cut); VF_SCALAR(int, constructed);
	__CPROVER_assume(size <= 6 && cut <= size);
	asn_codec_ctx_t ctx; memset(&ctx, 0, sizeof(ctx));
	ssize_t r = ber_skip_length(&ctx, constructed, b, size);
	ssize_t r2 = ber_skip_length(&ctx, constructed, b, cut);
	VF_CANARY();
	__CPROVER_assert(r >= -1 && (r <= 0 || (size_t)r <= size), "C04: skipped <= size");
	if(r > 0 && !(b[0] & 0x80)) __CPROVER_assert(r == 1 + b[0], "C03: short definite form skips L and V");
	if(r > 0 && constructed && b[0] == 0x80) __CPROVER_assert(r >= 3 && b[r - 1] == 0 && b[r - 2] == 0, "C03: an indefinite body ends with the end-of-contents octets");
	if(r > 0 && cut < (size_t)r) __CPROVER_assert(r2 == 0 || r2 == -1, "C05: a proper prefix of the body is never reported complete");
	if(r > 0 && cut >= (size_t)r) __CPROVER_assert(r2 == r, "C05: bytes after the body do not matter");
}

VF_NATIVE_MAIN
