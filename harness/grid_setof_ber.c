/* bounded stand-in (native grid): SET OF over BER with longer inputs than SET_OF_decode_ber.b8 / .chunk2 (CBMC) reach:
 * assertions of harness/h_setof_ber.c on 5 outer length forms x every sequence of at most 5 TLV templates (elements with
 * several values, wrong tag, wrong length, end-of-contents, high-tag-number form) x every truncation x every split point. */
#define VF_GRID 1
#define VF_N 26
#include "h_setof_ber.c"
#define VF_TLVS 5
#define NT 7
#define NFORMS 5
#define OUTER 0x31
static const unsigned char TPL[NT][6] = { {3, 0x80, 1, 0x11}, {3, 0x80, 1, 0xff}, {3, 0x80, 1, 0x00}, {3, 0x81, 1, 0x12}, {4, 0x80, 2, 0x13, 0x14}, {2, 0x00, 0x00}, {4, 0x9f, 0x00, 1, 0x15} };
#define ONE h_SET_OF_decode_ber
#define CHUNK h_SET_OF_decode_ber_chunked
#include "grid_tlv.h"
