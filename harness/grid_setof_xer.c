/* bounded stand-in (native grid): SET OF over XER (C06 CANONICAL-XER ordering, C07 failure reporting, C14 no leak), the real
 * SET_OF_encode_xer with SET_OF_encode_xer_callback and SET_OF_xer_order, compiled into this file with MALLOC/REALLOC/CALLOC
 * redirected so that the k-th allocation can fail (mechanical macro redirection only), under ASan/UBSan/LeakSanitizer.
 * Lists of 0..3 stub elements (element text: one or two letters), element name "e":
 *  - CANONICAL-XER: every permutation of a list gives the same text, the elements in ascending order of their text;
 *  - BASIC and CANONICAL: the k-th allocation (k = 0..7) or the j-th output call (j = 0..9) fails: the encoder reports -1
 *    (or, for an output failure, does not report more than it delivered) and releases everything it allocated. */
#include <stdio.h>
#include <stdlib.h>
#include <string.h>
#include <stdint.h>
#include <asn_internal.h>
#include <constr_SET_OF.h>
static long vf_alloc_count, vf_alloc_fail_at = -1;
static int vf_alloc_fails(void) { return vf_alloc_fail_at >= 0 && vf_alloc_count++ == vf_alloc_fail_at; }
static void *vf_malloc(size_t n) { return vf_alloc_fails() ? 0 : malloc(n); }
static void *vf_calloc(size_t a, size_t b) { return vf_alloc_fails() ? 0 : calloc(a, b); }
static void *vf_realloc(void *p, size_t n) { return vf_alloc_fails() ? 0 : realloc(p, n); }
#undef MALLOC
#undef CALLOC
#undef REALLOC
#define MALLOC(size) vf_malloc(size)
#define CALLOC(nmemb, size) vf_calloc(nmemb, size)
#define REALLOC(oldptr, size) vf_realloc(oldptr, size)
#include "constr_SET_OF.c"

struct sv { char t[3]; };
struct L { A_SET_OF(struct sv) list; asn_struct_ctx_t _asn_ctx; };
static asn_TYPE_descriptor_t sv_td, L_td; static asn_TYPE_operation_t sv_op; static asn_TYPE_member_t L_elems[1]; static asn_SET_OF_specifics_t L_specs;
static asn_enc_rval_t sv_xer(const asn_TYPE_descriptor_t *td, const void *sptr, int il, enum xer_encoder_flags_e fl, asn_app_consume_bytes_f *cb, void *key) {
	asn_enc_rval_t er = {0, 0, 0}; const struct sv *s = (const struct sv *)sptr; size_t n = strlen(s->t); (void)il; (void)fl;
	if(cb(s->t, n, key) < 0) { er.encoded = -1; er.failed_type = td; er.structure_ptr = sptr; return er; }
	er.encoded = (ssize_t)n; return er; }
static char out[256]; static size_t out_n; static long cb_calls, cb_fail_at = -1; static int cb_failed;
static int collect(const void *p, size_t n, void *key) { (void)key; if(cb_fail_at >= 0 && cb_calls++ == cb_fail_at) { cb_failed = 1; return -1; } if(out_n + n > sizeof(out)) return -1; memcpy(out + out_n, p, n); out_n += n; return 0; }
static unsigned long long evaluated, failed;
static void fail(const char *w, int cnt, long a, long b) { if(failed++ < 10) printf("VF-GRID: FAIL count=%d case=%ld/%ld %s\n", cnt, a, b, w); }
static const char *TXT[5] = { "a", "ab", "b", "ba", "aa" };
int main(void) {
	memset(&sv_op, 0, sizeof(sv_op)); sv_op.xer_encoder = sv_xer;
	memset(&sv_td, 0, sizeof(sv_td)); sv_td.name = "SV"; sv_td.xml_tag = "SV"; sv_td.op = &sv_op;
	memset(L_elems, 0, sizeof(L_elems)); L_elems[0].flags = ATF_POINTER; L_elems[0].type = &sv_td; L_elems[0].name = "e";
	memset(&L_specs, 0, sizeof(L_specs)); L_specs.struct_size = sizeof(struct L); L_specs.ctx_offset = offsetof(struct L, _asn_ctx);
	memset(&L_td, 0, sizeof(L_td)); L_td.name = "L"; L_td.xml_tag = "L"; L_td.elements = L_elems; L_td.elements_count = 1; L_td.specifics = &L_specs;
	for(int cnt = 0; cnt <= 3; cnt++) { long total = 1; for(int i = 0; i < cnt; i++) total *= 5;
	  for(long code = 0; code < total; code++) {
		struct sv e[3]; struct sv *arr[3]; struct L l; long c = code; int idx[3];
		for(int i = 0; i < cnt; i++) { idx[i] = (int)(c % 5); c /= 5; strcpy(e[i].t, TXT[idx[i]]); arr[i] = &e[i]; }
		memset(&l, 0, sizeof(l)); l.list.array = arr; l.list.count = cnt; l.list.size = 3;
		/* reference: canonical text of the list as given */
		char ref[256]; size_t ref_n;
		out_n = 0; cb_fail_at = -1; cb_calls = 0; cb_failed = 0; vf_alloc_fail_at = -1; evaluated++;
		asn_enc_rval_t er = SET_OF_encode_xer(&L_td, &l, 1, XER_F_CANONICAL, collect, 0);
		if(er.encoded < 0 || (size_t)er.encoded != out_n) { fail("CANONICAL-XER encoding failed or mis-sized", cnt, code, 0); continue; }
		memcpy(ref, out, out_n); ref_n = out_n;
		/* the elements appear in ascending order of their text */
		{ const char *s[3]; for(int i = 0; i < cnt; i++) s[i] = e[i].t;
		  for(int i = 0; i < cnt; i++) for(int j = i + 1; j < cnt; j++) { char x[16], y[16]; snprintf(x, sizeof(x), "<e>%s</e>", s[i]); snprintf(y, sizeof(y), "<e>%s</e>", s[j]); if(strcmp(x, y) > 0) { const char *t = s[i]; s[i] = s[j]; s[j] = t; } }
		  char exp[256] = ""; for(int i = 0; i < cnt; i++) { strcat(exp, "<e>"); strcat(exp, s[i]); strcat(exp, "</e>"); }
		  if(ref_n != strlen(exp) || memcmp(ref, exp, ref_n)) fail("CANONICAL-XER text is not the elements in ascending order", cnt, code, 0); }
		/* reversed list: same text */
		{ struct sv *rev[3]; for(int i = 0; i < cnt; i++) rev[i] = arr[cnt - 1 - i]; struct L r = l; r.list.array = rev;
		  out_n = 0; evaluated++;
		  asn_enc_rval_t e2 = SET_OF_encode_xer(&L_td, &r, 1, XER_F_CANONICAL, collect, 0);
		  if(e2.encoded < 0 || out_n != ref_n || memcmp(out, ref, ref_n)) fail("CANONICAL-XER text depends on the order in memory", cnt, code, 1); }
		/* failures */
		for(int canon = 0; canon < 2; canon++) {
			for(long k = 0; k < 8; k++) { out_n = 0; cb_fail_at = -1; cb_calls = 0; cb_failed = 0; vf_alloc_count = 0; vf_alloc_fail_at = k; evaluated++;
				asn_enc_rval_t e3 = SET_OF_encode_xer(&L_td, &l, 1, canon ? XER_F_CANONICAL : XER_F_BASIC, collect, 0);
				int hit = vf_alloc_count > k; vf_alloc_fail_at = -1;
				if(hit && e3.encoded != -1) fail("a failed allocation does not make the encoder fail", cnt, code, k); }
			for(long j = 0; j < 10; j++) { out_n = 0; cb_fail_at = j; cb_calls = 0; cb_failed = 0; evaluated++;
				asn_enc_rval_t e4 = SET_OF_encode_xer(&L_td, &l, 1, canon ? XER_F_CANONICAL : XER_F_BASIC, collect, 0);
				cb_fail_at = -1;
				if(cb_failed && e4.encoded != -1) fail("a failing output callback does not make the encoder fail", cnt, code, j); }
		}
	  } }
	printf("VF-GRID: evaluated %llu failed %llu\n", evaluated, failed); fflush(stdout);
	return failed ? 1 : 0;
}
