/* C16: REAL conversion helpers */
#include <vf.h>
#include <asn_internal.h>
#include <REAL.h>
#include <errno.h>
#include <spec/real.h>
#include "REAL.c"

#ifndef VF_FINDING_D3
#define VF_FINDING_D3 0
#endif
#ifndef VF_FINDING_D9
#define VF_FINDING_D9 0
#endif

/* every double (all 2^64 bit patterns): the stored octets are the X.690 DER form */
void h_double2REAL(void) {
	VF_SCALAR(uint64_t, bits);
	VF_SCALAR(int, had_buf);
	double d;
	memcpy(&d, &bits, sizeof(d));
	REAL_t st; st.buf = 0; st.size = 0;
	if(had_buf) { st.buf = (uint8_t *)malloc(3); if(st.buf) st.size = 2; }
	uint8_t *oldbuf = st.buf; size_t oldsize = st.size;
	int r = asn_double2REAL(&st, d);
	VF_CANARY();
	struct spec_real sp = spec_der_real(bits);
	if(r == 0) {
		__CPROVER_assert(st.size == sp.len, "C16: REAL contents length is the DER one (special values; fewest exponent and mantissa octets; odd mantissa)");
		__CPROVER_assert(st.size == 0 || st.buf[0] == sp.oct[0], "C16: REAL first contents octet (special value / sign, base 2, F=0, exponent length)");
		__CPROVER_assert((st.size <= 1 || st.buf[1] == sp.oct[1]) && (st.size <= 2 || st.buf[2] == sp.oct[2]) &&
			(st.size <= 3 || st.buf[3] == sp.oct[3]) && (st.size <= 4 || st.buf[4] == sp.oct[4]) &&
			(st.size <= 5 || st.buf[5] == sp.oct[5]) && (st.size <= 6 || st.buf[6] == sp.oct[6]) &&
			(st.size <= 7 || st.buf[7] == sp.oct[7]) && (st.size <= 8 || st.buf[8] == sp.oct[8]) &&
			(st.size <= 9 || st.buf[9] == sp.oct[9]) && (st.size <= 10 || st.buf[10] == sp.oct[10]),
			"C16: REAL exponent and mantissa octets are the DER ones");
	} else {
		__CPROVER_assert(r == -1 && st.buf == oldbuf && st.size == oldsize, "C14: failed conversion leaves the REAL untouched");
	}
	free(st.buf);
}

/* round trip: every double -> REAL -> double returns the same bit pattern (NaN to NaN) */
void h_REAL_roundtrip(void) {
	VF_SCALAR(uint64_t, bits);
	double d, back = 0;
	uint64_t bb;
	memcpy(&d, &bits, sizeof(d));
	REAL_t st; st.buf = 0; st.size = 0;
	int r = asn_double2REAL(&st, d);
	__CPROVER_assume(r == 0);
	int r2 = asn_REAL2double(&st, &back);
	VF_CANARY();
	memcpy(&bb, &back, sizeof(bb));
	__CPROVER_assert(r2 == 0, "C16: a REAL produced from a double converts back");
	__CPROVER_assert(bb == bits || (d != d && back != back), "C16: double -> REAL -> double is bit-exact (NaN to NaN)");
	free(st.buf);
}

VF_NATIVE_MAIN
