/* C13/C02: the native (double) representation of REAL encodes in DER exactly like the wide REAL: X.690 8.5 / 11.3 contents */
#include <vf.h>
#include <asn_internal.h>
#include <NativeReal.h>
#include <REAL.h>
#include <spec/real.h>
#define VF_CB_CAP 16
#include <vf_cb.h>
#include "ber_tlv_tag.c"
#include "ber_tlv_length.c"
#include "ber_decoder.c"
#include "der_encoder.c"
#include "asn_codecs_prim.c"
#include "REAL.c"
#include "NativeReal.c"
size_t vf_k;

void h_NativeReal_encode_der(void) {
	VF_SCALAR(uint64_t, bits);
	double d; memcpy(&d, &bits, sizeof(d));
	int key = 0;
	asn_enc_rval_t er = NativeReal_encode_der(&asn_DEF_NativeReal, &d, 0, 0, vf_cb, &key);
	VF_CANARY();
	struct spec_real sp = spec_der_real(bits);
	__CPROVER_assert(er.encoded == (ssize_t)(2 + sp.len) && vf_cb_bytes == 2 + sp.len, "C13/C02: tag, length, DER contents of the same length as the wide REAL");
	__CPROVER_assert(vf_cb_log[0] == 0x09 && vf_cb_log[1] == sp.len, "C02: UNIVERSAL 9, short length");
	{ size_t i; int ok = 1; for(i = 0; i < 12; i++) if(i < sp.len && vf_cb_log[2 + i] != sp.oct[i]) ok = 0;
	  __CPROVER_assert(ok, "C13/C02: contents octets are the X.690 DER REAL of the value (also for -0, infinities, NaN, subnormals)"); }
}

VF_NATIVE_MAIN
