/* bounded stand-in (native grid): SEQUENCE_decode_xer (restartable XER decoder of a constructed type).  Assertions of
 * harness/h_seq_xer.c evaluated natively under ASan/UBSan/LSan on "<T>" followed by every concatenation of at most VF_PARTS of
 * the fragments below (member elements in and out of order, unknown additions, whitespace, comments, stray tags) x every
 * truncation x every split point. */
#define VF_GRID 1
#define VF_N 48
#include "h_seq_xer.c"
#ifndef VF_PARTS
#define VF_PARTS 5
#endif
static unsigned char in_buf[VF_N]; static size_t in_len;
static void run(size_t size, size_t k) {
	vf_grid_n = 0;
	vf_grid_tab[vf_grid_n++] = (struct vf_grid_in){ "buf", 0, in_buf, VF_N };
	vf_grid_tab[vf_grid_n++] = (struct vf_grid_in){ "size", size, 0, 0 };
	vf_grid_tab[vf_grid_n++] = (struct vf_grid_in){ "k", k, 0, 0 };
	VF_GRID_RUN(h_SEQUENCE_decode_xer);
}
static void all_cuts(void) { for(size_t size = 0; size <= in_len; size++) for(size_t k = 0; k <= size; k++) run(size, k); }
static const char *FR[] = { "<a>1</a>", "<b>2</b>", "<c>3</c>", "<d>4</d>", "<u>5</u>", "<u/>", " ", "<!--x-->", "</T>", "<a>", "<c/>", "<T>", "x" };
#define NF (sizeof(FR) / sizeof(FR[0]))
int main(void) {
	int idx[VF_PARTS];
	for(int lead = 0; lead < 2; lead++) for(int cnt = 0; cnt <= VF_PARTS; cnt++) {
		long total = 1; for(int i = 0; i < cnt; i++) total *= (long)NF;
		for(long code = 0; code < total; code++) {
			long c = code; memset(in_buf, 0, VF_N); in_len = 0; int fits = 1;
			const char *head = lead ? " <T>" : "<T>"; memcpy(in_buf, head, strlen(head)); in_len = strlen(head);
			for(int i = 0; i < cnt; i++) { idx[i] = (int)(c % (long)NF); c /= (long)NF; size_t l = strlen(FR[idx[i]]); if(in_len + l > VF_N) { fits = 0; break; } memcpy(in_buf + in_len, FR[idx[i]], l); in_len += l; }
			if(fits) all_cuts();
		}
	}
	return VF_GRID_SUMMARY();
}
