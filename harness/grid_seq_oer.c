/* bounded stand-in (native grid): the OER SEQUENCE decoder with extension additions, which CBMC cannot get through (the bit
 * stream objects of symbolic size exhaust the SAT back end).  The assertions are the ones of harness/h_seq_oer.c (C03, C04,
 * C05, C14: one-shot decode + free, and every two-chunk split against one-shot), evaluated natively under ASan/UBSan/LSan on
 * enumerated inputs of the type  T ::= SEQUENCE { a, b OPTIONAL, c, ..., d }  (stub members, see h_seq_oer.c):
 *   preamble in {80, C0, 00, 40} x members a/b/c (one value set, plus an invalid a) x extension bitmap field
 *   (length 1..3, unused bits 0..7, first bitmap octet from VF_BM_STEP-spaced values, second 00/80/ff) x every sequence of
 *   at most two open-type templates (02 55 66 | 01 77 | 03 01 02 03 | 00 | 02 ff 00) x every truncation x every split point,
 *   plus VERIF_SEED-driven random tails. */
#define VF_GRID 1
#define VF_EXT 1
#define VF_N 24
#define VF_BMAX 22
#include "h_seq_oer.c"

#ifndef VF_BM_STEP
#define VF_BM_STEP 1
#endif
static unsigned char in_buf[VF_N]; static size_t in_len;
static void run(size_t size, size_t k) {
	vf_grid_n = 0;
	vf_grid_tab[vf_grid_n++] = (struct vf_grid_in){ "buf", 0, in_buf, VF_N };
	vf_grid_tab[vf_grid_n++] = (struct vf_grid_in){ "size", size, 0, 0 };
	vf_grid_tab[vf_grid_n++] = (struct vf_grid_in){ "k", k, 0, 0 };
	if(k == 0) { VF_GRID_RUN(h_SEQUENCE_decode_oer); VF_GRID_RUN(h_SEQUENCE_decode_oer_reset); }
	VF_GRID_RUN(h_SEQUENCE_decode_oer_chunked);
}
static void all_cuts(void) { for(size_t size = 0; size <= in_len; size++) for(size_t k = 0; k <= size; k++) run(size, k); }
static const unsigned char TPL[5][4] = { {2, 0x55, 0x66, 0}, {1, 0x77, 0, 0}, {3, 1, 2, 3}, {0, 0, 0, 0}, {2, 0xff, 0, 0} };
static void put(const unsigned char *p, size_t n) { for(size_t i = 0; i < n && in_len < VF_N; i++) in_buf[in_len++] = p[i]; }
int main(void) {
	const char *seed_s = getenv("VERIF_SEED");
	uint64_t x = seed_s ? strtoull(seed_s, 0, 10) * 0x9E3779B97F4A7C15ull + 1 : 88172645463325252ull;
	static const unsigned char pre[4] = { 0x80, 0xC0, 0x00, 0x40 };
	for(int pi = 0; pi < 4; pi++) for(int bad_a = 0; bad_a < 2; bad_a++) {
		unsigned char head[8]; size_t hn = 0;
		head[hn++] = pre[pi]; head[hn++] = bad_a ? 0xff : 0x11; head[hn++] = 0x12;
		if(pre[pi] & 0x40) { head[hn++] = 0x21; head[hn++] = 0x22; }
		head[hn++] = 0x31; head[hn++] = 0x32;
		if(!(pre[pi] & 0x80) || bad_a) { memset(in_buf, 0, VF_N); in_len = 0; put(head, hn); put((const unsigned char *)"\x02\x06\x80", 3); all_cuts(); continue; }
		for(unsigned len = 1; len <= 3; len++) for(unsigned unused = 0; unused < 8; unused++) for(unsigned bm = 0; bm < 256; bm += VF_BM_STEP) for(int b2 = 0; b2 < 3; b2++) {
			if(len < 3 && b2) continue;
			for(int t1 = -1; t1 < 5; t1++) for(int t2 = -1; t2 < 5; t2++) {
				if(t1 < 0 && t2 >= 0) continue;
				memset(in_buf, 0, VF_N); in_len = 0; put(head, hn);
				unsigned char f[5]; size_t fn = 0; f[fn++] = (unsigned char)len; f[fn++] = (unsigned char)unused;
				if(len >= 2) f[fn++] = (unsigned char)bm;
				if(len >= 3) f[fn++] = b2 == 0 ? 0x00 : b2 == 1 ? 0x80 : 0xff;
				put(f, fn);
				if(t1 >= 0) put(TPL[t1] + 0, 1 + TPL[t1][0]);
				if(t2 >= 0) put(TPL[t2] + 0, 1 + TPL[t2][0]);
				all_cuts();
			}
		}
	}
	for(int i = 0; i < 20000; i++) {        /* random tails behind a valid head */
		memset(in_buf, 0, VF_N); in_len = 0;
		unsigned char head[8] = { 0x80, 0x11, 0x12, 0x31, 0x32 }; put(head, 5);
		for(int j = 0; j < 10; j++) { x ^= x << 13; x ^= x >> 7; x ^= x << 17; unsigned char c = (unsigned char)(x % 7 == 0 ? x >> 8 : (x >> 8) & 0x83); put(&c, 1); }
		all_cuts();
	}
	return VF_GRID_SUMMARY();
}
