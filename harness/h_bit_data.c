/* L0: bit-level I/O used by every PER codec (asn_bit_data.c) */
#include <vf.h>
#include <asn_internal.h>
#include <asn_bit_data.h>
#define VF_CB_CAP 8
#include <vf_cb.h>
#include "asn_bit_data.c"

#define VF_IN 16   /* input buffer octets */

static unsigned bit_at(const unsigned char *p, size_t q) { return (p[q >> 3] >> (7 - (q & 7))) & 1u; }

/* representation invariant of an input bit stream over a buffer of VF_IN octets starting at `base` */
#define PD_OK(pd, base) ((pd).buffer >= (base) && (pd).buffer <= (base) + VF_IN && (pd).nboff <= (pd).nbits && (pd).nbits <= 8 * VF_IN && \
	(size_t)((pd).buffer - (base)) * 8 + (pd).nbits <= 8 * VF_IN)

/* asn_get_few_bits: every stream state, every requested width */
void h_get_few_bits(void) {
	VF_BYTES(data, VF_IN);
	VF_SCALAR(size_t, start); VF_SCALAR(size_t, nboff); VF_SCALAR(size_t, nbits); VF_SCALAR(size_t, moved);
	VF_SCALAR(int, want);
	asn_bit_data_t pd;
	memset(&pd, 0, sizeof(pd));
	__CPROVER_assume(start <= VF_IN && moved < (1u << 20));
	pd.buffer = data + start; pd.nboff = nboff; pd.nbits = nbits; pd.moved = moved;
	__CPROVER_assume(PD_OK(pd, data));
	size_t pos0 = start * 8 + nboff, left0 = nbits - nboff;
	int32_t v = asn_get_few_bits(&pd, want);
	VF_CANARY();
	size_t pos1 = (size_t)(pd.buffer - data) * 8 + pd.nboff;
	__CPROVER_assert(PD_OK(pd, data), "C04: bit stream invariant preserved (nboff <= nbits, window inside the buffer)");
	if(want < 0 || (size_t)want > left0 || want > 31) {
		__CPROVER_assert(v == -1, "C04: negative width, width above 31 bits or more bits than available is refused");
		__CPROVER_assert(pos1 == pos0 && pd.moved == moved && pd.nbits - pd.nboff == left0, "C05: a refused read leaves the stream position unchanged");
	} else {
		uint32_t ref = 0; int i;
		for(i = 0; i < 31; i++) if(i < want) ref = (ref << 1) | bit_at(data, pos0 + i);
		__CPROVER_assert(v >= 0 && (uint32_t)v == ref, "C02: the next n bits, most significant first (X.691 bit order)");
		__CPROVER_assert(pos1 == pos0 + want && pd.moved == moved + want && pd.nbits - pd.nboff == left0 - want, "C04: position and 'moved' advance by exactly n");
	}
}

/* asn_get_many_bits: up to 80 bits, both alignments */
void h_get_many_bits(void) {
	VF_BYTES(data, VF_IN);
	VF_SCALAR(size_t, nboff); VF_SCALAR(size_t, nbits); VF_SCALAR(int, want); VF_SCALAR(int, alright);
	asn_bit_data_t pd;
	uint8_t dst[12] = { 0xEE, 0xEE, 0xEE, 0xEE, 0xEE, 0xEE, 0xEE, 0xEE, 0xEE, 0xEE, 0xEE, 0xEE };
	memset(&pd, 0, sizeof(pd));
	pd.buffer = data; pd.nboff = nboff; pd.nbits = nbits;
	__CPROVER_assume(PD_OK(pd, data) && want >= 0 && want <= 32);
	size_t pos0 = nboff, left0 = nbits - nboff;
	int r = asn_get_many_bits(&pd, dst, alright, want);
	VF_CANARY();
	size_t nb = ((size_t)want + 7) / 8;
	__CPROVER_assert(PD_OK(pd, data), "C04: bit stream invariant preserved");
	__CPROVER_assert(dst[nb] == 0xEE && dst[11] == 0xEE, "C04: exactly ceil(n/8) octets are written");
	if((size_t)want > left0) __CPROVER_assert(r == -1, "C04: reading more bits than available fails");
	else {
		VF_SCALAR(size_t, q);   /* ghost bit index */
		__CPROVER_assert(r == 0 && (size_t)(pd.buffer - data) * 8 + pd.nboff == pos0 + want, "C04: position advances by exactly n");
		if(q < (size_t)want) {
			size_t pad = alright ? (8 * nb - want) : 0;  /* right alignment pads in front */
			__CPROVER_assert(bit_at(dst, pad + q) == bit_at(data, pos0 + q), "C02: bit q of the output equals bit q of the stream (left or right aligned)");
		}
		if(alright && (want & 7)) __CPROVER_assert((dst[0] >> (want & 7)) == 0, "C02: right-aligned first octet is zero padded");
		if(!alright && (want & 7)) __CPROVER_assert((uint8_t)(dst[nb - 1] << (want & 7)) == 0, "C02: left-aligned last octet is zero padded");
	}
}

/* ---- output side ---- */
#define PO_OK(po) ((po).buffer >= (po).tmpspace && (po).buffer < (po).tmpspace + 32 && \
	(po).nbits == 8 * (32 - (size_t)((po).buffer - (po).tmpspace)) && (po).nboff <= (po).nbits)

/* bit q of the output stream = bytes already handed to the callback followed by tmpspace */
/* bytes handed to the callback are observed through the watched position vf_cb_watch == q/8 */
static unsigned out_bit(const asn_bit_outp_t *po, size_t q) {
	size_t fb = 8 * po->flushed_bytes;
	return q < fb ? ((vf_cb_watched >> (7 - (q & 7))) & 1u) : bit_at(po->tmpspace, q - fb);
}

void h_put_few_bits(void) {
	VF_BYTES(tmp0, 32);
	VF_SCALAR(size_t, off); VF_SCALAR(size_t, nboff); VF_SCALAR(uint32_t, bits); VF_SCALAR(int, obits); VF_SCALAR(long, fail_at);
	VF_SCALAR(size_t, q);
	asn_bit_outp_t po;
	int key = 0;
	__CPROVER_assume(off < 32 && fail_at >= -1 && fail_at <= 1);
	memcpy(po.tmpspace, tmp0, 32);
	po.buffer = po.tmpspace + off; po.nbits = 8 * (32 - off); po.nboff = nboff;
	po.output = vf_cb; po.op_key = &key; po.flushed_bytes = 0;
	__CPROVER_assume(PO_OK(po));
	vf_cb_fail_at = fail_at;
	size_t T0 = 8 * off + nboff;
	VF_SCALAR(int, second);          /* which of the two facts below is observed */
	vf_cb_watch = (second ? T0 + q : q) >> 3;
	int r = asn_put_few_bits(&po, bits, obits);
	VF_CANARY();
	if(obits <= 0 || obits >= 32) {
		__CPROVER_assert(r == (obits ? -1 : 0) && vf_cb_calls == 0 && 8 * (size_t)(po.buffer - po.tmpspace) + po.nboff == T0, "C07: zero width is a no-op, invalid widths are refused without output");
	} else if(vf_cb_failed) {
		__CPROVER_assert(r == -1, "C07: output callback failure makes the call return -1");
	} else {
		size_t T1 = 8 * po.flushed_bytes + 8 * (size_t)(po.buffer - po.tmpspace) + po.nboff;
		__CPROVER_assert(r == 0 && PO_OK(po), "C04: output stream invariant preserved");
		__CPROVER_assert(T1 == T0 + (size_t)obits, "C07: total bit position grows by exactly the number of bits put");
		__CPROVER_assert(po.flushed_bytes == vf_cb_bytes, "C07: flushed_bytes equals the bytes delivered to the callback");
		if(!second && q < T0) __CPROVER_assert(out_bit(&po, q) == bit_at(tmp0, q), "C02: bits already in the stream are preserved");
		if(second && q < (size_t)obits) __CPROVER_assert(out_bit(&po, T0 + q) == ((bits >> (obits - 1 - q)) & 1u), "C02: the value is appended most significant bit first");
	}
}

void h_put_many_bits(void) {
	VF_BYTES(src, 12);
	VF_BYTES(tmp0, 32);
	VF_SCALAR(size_t, off); VF_SCALAR(size_t, nboff); VF_SCALAR(int, nb); VF_SCALAR(size_t, q);
	asn_bit_outp_t po;
	int key = 0;
	__CPROVER_assume(off < 32 && nb >= 0 && nb <= 32);
	memcpy(po.tmpspace, tmp0, 32);
	po.buffer = po.tmpspace + off; po.nbits = 8 * (32 - off); po.nboff = nboff;
	po.output = vf_cb; po.op_key = &key; po.flushed_bytes = 0;
	__CPROVER_assume(PO_OK(po));
	size_t T0 = 8 * off + nboff;
	VF_SCALAR(int, second);
	vf_cb_watch = (second ? T0 + q : q) >> 3;
	int r = asn_put_many_bits(&po, src, nb);
	VF_CANARY();
	size_t T1 = 8 * po.flushed_bytes + 8 * (size_t)(po.buffer - po.tmpspace) + po.nboff;
	__CPROVER_assert(r == 0 && PO_OK(po) && T1 == T0 + (size_t)nb, "C07: n bits appended, invariant preserved");
	__CPROVER_assert(po.flushed_bytes == vf_cb_bytes, "C07: flushed_bytes equals the bytes delivered to the callback");
	if(!second && q < T0) __CPROVER_assert(out_bit(&po, q) == bit_at(tmp0, q), "C02: earlier bits preserved");
	if(second && q < (size_t)nb) __CPROVER_assert(out_bit(&po, T0 + q) == bit_at(src, q), "C02: bit q of the source appended at position T0+q");
}

void h_put_aligned_flush(void) {
	VF_BYTES(tmp0, 32);
	VF_SCALAR(size_t, off); VF_SCALAR(size_t, nboff); VF_SCALAR(long, fail_at); VF_SCALAR(size_t, q);
	asn_bit_outp_t po;
	int key = 0;
	__CPROVER_assume(off < 32 && fail_at >= -1 && fail_at <= 0);
	memcpy(po.tmpspace, tmp0, 32);
	po.buffer = po.tmpspace + off; po.nbits = 8 * (32 - off); po.nboff = nboff;
	po.output = vf_cb; po.op_key = &key; po.flushed_bytes = 0;
	__CPROVER_assume(PO_OK(po));
	vf_cb_fail_at = fail_at;
	size_t T0 = 8 * off + nboff;
	vf_cb_watch = q >> 3;
	int r = asn_put_aligned_flush(&po);
	VF_CANARY();
	if(vf_cb_failed) __CPROVER_assert(r == -1, "C07: output callback failure makes the flush return -1");
	else {
		__CPROVER_assert(r == 0 && PO_OK(po) && po.nboff == 0 && po.buffer == po.tmpspace, "C04: stream reset after flush");
		__CPROVER_assert(vf_cb_bytes == (T0 + 7) / 8 && po.flushed_bytes == vf_cb_bytes, "C07: exactly ceil(bits/8) octets delivered and accounted");
		if(q < T0) __CPROVER_assert(vf_cb_watch_hit && ((vf_cb_watched >> (7 - (q & 7))) & 1u) == bit_at(tmp0, q), "C02: delivered bits are the bits put");
		if(q >= T0 && q < 8 * ((T0 + 7) / 8)) __CPROVER_assert(vf_cb_watch_hit && ((vf_cb_watched >> (7 - (q & 7))) & 1u) == 0, "C02/C06: padding bits of the last octet are zero");
	}
}

/* inverse pair: put n bits at any offset, flush, read them back */
void h_bits_roundtrip(void) {
	VF_SCALAR(uint32_t, pre); VF_SCALAR(int, npre); VF_SCALAR(uint32_t, bits); VF_SCALAR(int, n);
	asn_bit_outp_t po;
	asn_bit_data_t pd;
	int key = 0;
	__CPROVER_assume(npre >= 0 && npre <= 31 && n >= 0 && n <= 31);
	memset(&po, 0, sizeof(po));
	po.buffer = po.tmpspace; po.nbits = 8 * sizeof(po.tmpspace); po.output = vf_cb; po.op_key = &key;
	int r = asn_put_few_bits(&po, pre, npre) || asn_put_few_bits(&po, bits, n) || asn_put_aligned_flush(&po);
	VF_CANARY();
	__CPROVER_assert(r == 0 && vf_cb_bytes == ((size_t)npre + n + 7) / 8, "C07: encoded size");
	memset(&pd, 0, sizeof(pd));
	pd.buffer = vf_cb_log; pd.nbits = 8 * vf_cb_bytes;
	int32_t a = asn_get_few_bits(&pd, npre), b = asn_get_few_bits(&pd, n);
	__CPROVER_assert(a >= 0 && (uint32_t)a == (npre ? (pre & ((1u << npre) - 1)) : 0), "C01: first field read back");
	__CPROVER_assert(b >= 0 && (uint32_t)b == (n ? (bits & ((1u << n) - 1)) : 0), "C01: get_few_bits(put_few_bits(v, n), n) == v at every bit offset");
}

VF_NATIVE_MAIN
