/* primitive BER/DER codec: ber_check_tags + ber_decode_primitive + der_encode_primitive + free */
#include <vf.h>
#include <asn_internal.h>
#include <asn_codecs_prim.h>
#include <spec/x690.h>
#define VF_CB_CAP 16
#include <vf_cb.h>
#include <vf_alloc.h>
#include "ber_tlv_tag.c"
#include "ber_tlv_length.c"
#include "ber_decoder.c"
#include "der_encoder.c"
#include "asn_codecs_prim.c"
size_t vf_k;

#ifndef VF_FINDING_D12
#define VF_FINDING_D12 0
#endif
#define NB 14

static asn_TYPE_descriptor_t td;
static ber_tlv_tag_t tags[3];
static void mk_td(ber_tlv_tag_t t0, ber_tlv_tag_t t1, ber_tlv_tag_t t2, int n) {
	memset(&td, 0, sizeof(td));
	tags[0] = t0; tags[1] = t1; tags[2] = t2;
	td.name = "P"; td.xml_tag = "P"; td.tags = tags; td.tags_count = n; td.all_tags = tags; td.all_tags_count = n;
}

/* arbitrary bytes into a fresh or reset structure: C04 / C05 / C14 */
void h_ber_decode_primitive(void) {
	VF_BYTES(buf, NB); VF_SCALAR(size_t, size); VF_SCALAR(ber_tlv_tag_t, t0); VF_SCALAR(ber_tlv_tag_t, t1); VF_SCALAR(ber_tlv_tag_t, t2);
	VF_SCALAR(int, ntags); VF_SCALAR(int, tag_mode);
	__CPROVER_assume(size <= NB && ntags >= 1 && ntags <= 3 && tag_mode >= -1 && tag_mode <= 1);
	mk_td(t0, t1, t2, ntags);
	void *sptr = 0;
	asn_codec_ctx_t ctx; memset(&ctx, 0, sizeof(ctx));
	asn_dec_rval_t rv = ber_decode_primitive(&ctx, &td, &sptr, buf, size, tag_mode);
	VF_CANARY();
	__CPROVER_assert(rv.code == RC_OK || rv.code == RC_WMORE || rv.code == RC_FAIL, "C04: return code is one of RC_OK / RC_WMORE / RC_FAIL");
	__CPROVER_assert(rv.consumed <= size, "C04: consumed <= size");
	if(rv.code == RC_WMORE) __CPROVER_assert(rv.consumed == 0, "C05: a starved context-free decode consumes nothing");
	__CPROVER_assert(vf_alloc_peak_request <= size + 64, "C15: the length is compared with the available bytes before anything is allocated for the contents");
	if(sptr) {
		ASN__PRIMITIVE_TYPE_t *st = (ASN__PRIMITIVE_TYPE_t *)sptr;
		if(rv.code == RC_OK) {
			__CPROVER_assert(st->buf != 0 && st->size <= rv.consumed && st->buf[st->size] == 0, "C04: decoded contents are a NUL-terminated copy no longer than the input");
			__CPROVER_assert(st->size == 0 || st->buf[st->size - 1] == buf[rv.consumed - 1], "C01: contents octets are the last octets of the TLV");
		} else __CPROVER_assert(st->buf == 0 && st->size == 0, "C04: a failed decode leaves an empty (printable, freeable) structure");
		ASN__PRIMITIVE_TYPE_free(&td, sptr, ASFM_FREE_EVERYTHING);   /* --memory-leak-check: nothing may remain */
	} else __CPROVER_assert(rv.code == RC_FAIL, "C14: no structure only when the allocation failed");
}

/* chunked = one-shot for a primitive: decode(prefix) then decode(whole) */
void h_ber_decode_primitive_prefix(void) {
	VF_BYTES(buf, NB); VF_SCALAR(size_t, size); VF_SCALAR(size_t, cut); VF_SCALAR(ber_tlv_tag_t, t0); VF_SCALAR(ber_tlv_tag_t, t1); VF_SCALAR(int, ntags);
	__CPROVER_assume(size <= NB && cut <= size && ntags >= 1 && ntags <= 2);
	mk_td(t0, t1, 0, ntags);
	void *s1 = 0, *s2 = 0;
	asn_codec_ctx_t ctx; memset(&ctx, 0, sizeof(ctx));
	asn_dec_rval_t whole = ber_decode_primitive(&ctx, &td, &s1, buf, size, 0);
	asn_dec_rval_t part = ber_decode_primitive(&ctx, &td, &s2, buf, cut, 0);
	VF_CANARY();
	if(s1 && s2 && whole.code == RC_OK) {
		if(cut < whole.consumed) __CPROVER_assert(part.code == RC_WMORE && part.consumed == 0, "C05: every proper prefix of a valid encoding yields RC_WMORE with nothing consumed");
		else __CPROVER_assert(part.code == RC_OK && part.consumed == whole.consumed, "C05: bytes after the element do not change the result");
	}
	if(s1 && s2 && whole.code == RC_FAIL && part.code == RC_OK) __CPROVER_assert(0, "C05: a prefix cannot succeed where the whole input fails");
	if(s1) ASN__PRIMITIVE_TYPE_free(&td, s1, ASFM_FREE_EVERYTHING);
	if(s2) ASN__PRIMITIVE_TYPE_free(&td, s2, ASFM_FREE_EVERYTHING);
}

/* DER encode -> BER decode returns the same octets, every tag chain, contents <= 6 octets */
void h_prim_roundtrip(void) {
	VF_BYTES(content, 6); VF_SCALAR(size_t, n); VF_SCALAR(ber_tlv_tag_t, t0); VF_SCALAR(ber_tlv_tag_t, t1); VF_SCALAR(int, ntags); VF_SCALAR(long, fail_at);
#ifdef VF_NTAGS
	ntags = VF_NTAGS;
#endif
	__CPROVER_assume(n <= 6 && ntags >= 1 && ntags <= 2 && fail_at >= -1 && fail_at <= 3);
	__CPROVER_assume((t0 >> 2) < 128 && (t1 >> 2) < 128);
	mk_td(t0, t1, 0, ntags);
	ASN__PRIMITIVE_TYPE_t src; src.buf = content; src.size = n;
	int key = 0;
	vf_cb_fail_at = fail_at;
	asn_enc_rval_t er0 = der_encode_primitive(&td, &src, 0, 0, 0, 0);
	asn_enc_rval_t er = der_encode_primitive(&td, &src, 0, 0, vf_cb, &key);
	VF_CANARY();
	if(vf_cb_failed) { __CPROVER_assert(er.encoded == -1 && er.failed_type == &td, "C07: callback failure gives -1 naming the type"); return; }
	__CPROVER_assert(er.encoded == (ssize_t)vf_cb_bytes && er0.encoded == er.encoded, "C07: reported size equals bytes delivered; same size when only estimating");
	void *sptr = 0;
	asn_codec_ctx_t ctx; memset(&ctx, 0, sizeof(ctx));
	asn_dec_rval_t rv = ber_decode_primitive(&ctx, &td, &sptr, vf_cb_log, vf_cb_bytes, 0);
	if(sptr) {
		ASN__PRIMITIVE_TYPE_t *st = (ASN__PRIMITIVE_TYPE_t *)sptr;
		if(st->buf || rv.code != RC_FAIL) {
			__CPROVER_assert(rv.code == RC_OK && rv.consumed == vf_cb_bytes, "C01: decoding the DER encoding returns RC_OK and consumes exactly the bytes produced");
			__CPROVER_assert(st->size == n && (n <= 0 || st->buf[0] == content[0]) && (n <= 1 || st->buf[1] == content[1]) && (n <= 2 || st->buf[2] == content[2])
				&& (n <= 3 || st->buf[3] == content[3]) && (n <= 4 || st->buf[4] == content[4]) && (n <= 5 || st->buf[5] == content[5]), "C01: same contents octets");
		}
		ASN__PRIMITIVE_TYPE_free(&td, sptr, ASFM_FREE_EVERYTHING);
	}
}

/* malformed structures handed to the encoder: -1, never an abort */
void h_der_encode_primitive_malformed(void) {
	VF_SCALAR(size_t, n); VF_SCALAR(int, nullbuf); VF_SCALAR(int, nocb);
	unsigned char content[4] = { 1, 2, 3, 4 };
	__CPROVER_assume(n <= 4);
	mk_td(2 << 2, 0, 0, 1);
	ASN__PRIMITIVE_TYPE_t src; src.buf = nullbuf ? (uint8_t *)0 : &content[0]; src.size = n;
	VF_FINDING(VF_FINDING_D12, nullbuf && n > 0);
	int key = 0;
	asn_enc_rval_t er = der_encode_primitive(&td, &src, 0, 0, nocb ? 0 : vf_cb, &key);
	VF_CANARY();
	if(nullbuf && n > 0) __CPROVER_assert(er.encoded == -1, "C07: a structure with a size but no buffer cannot be encoded: -1, not an abort");
	else __CPROVER_assert(er.encoded == (ssize_t)(2 + n), "C07: size");
}

/* free methods */
void h_prim_free(void) {
	VF_SCALAR(int, method); VF_SCALAR(int, hasbuf);
	__CPROVER_assume(method >= 0 && method <= 2);
	mk_td(2 << 2, 0, 0, 1);
	ASN__PRIMITIVE_TYPE_t *st = (ASN__PRIMITIVE_TYPE_t *)calloc(1, sizeof(*st));
	__CPROVER_assume(st);
	if(hasbuf) { st->buf = (uint8_t *)malloc(3); __CPROVER_assume(st->buf); st->size = 2; }
	ASN__PRIMITIVE_TYPE_free(&td, st, (enum asn_struct_free_method)method);
	VF_CANARY();
	if(method == ASFM_FREE_UNDERLYING_AND_RESET) __CPROVER_assert(st->buf == 0 && st->size == 0, "C14: RESET leaves a zeroed structure");
	if(method != ASFM_FREE_EVERYTHING) free(st);
}

/* ber_check_tags on a two-tag chain (EXPLICIT wrapper around a constructed type), plain one-octet tags and short lengths:
 * the convention every constructed decoder relies on: consumed = both TLs, *last_length = inner length, or minus the number
 * of end-of-contents markers still expected when the chain is indefinite */
void h_ber_check_tags_chain(void) {
	VF_BYTES(buf, 6); VF_SCALAR(size_t, size); VF_SCALAR(unsigned char, n0); VF_SCALAR(unsigned char, n1);
	__CPROVER_assume(size <= 6 && n0 < 31 && n1 < 31);
	mk_td(((ber_tlv_tag_t)n0 << 2) | ASN_TAG_CLASS_CONTEXT, ((ber_tlv_tag_t)n1 << 2) | ASN_TAG_CLASS_UNIVERSAL, 0, 2);
	ber_tlv_len_t last = 12345; int form = 7;
	asn_codec_ctx_t ctx; memset(&ctx, 0, sizeof(ctx));
	asn_dec_rval_t rv = ber_check_tags(&ctx, &td, 0, buf, size, 0, 1, &last, &form);
	VF_CANARY();
	__CPROVER_assert(rv.consumed <= size && (rv.code == RC_OK || rv.consumed == 0), "C04/C05: consumed <= size; nothing consumed unless the whole chain was read (no context given)");
	if(size >= 4 && buf[0] == (0xA0 | n0) && buf[2] == (0x20 | n1)) {
		if(buf[1] == 0x80 && buf[3] == 0x80) __CPROVER_assert(rv.code == RC_OK && rv.consumed == 4 && last == -2, "C03: indefinite wrapper around an indefinite body: two end-of-contents markers are still expected");
		else if(buf[1] < 0x80 && buf[3] < 0x80 && buf[1] == buf[3] + 2) __CPROVER_assert(rv.code == RC_OK && rv.consumed == 4 && last == buf[3], "C03: definite chain with consistent lengths: length of the innermost contents");
		else if(buf[1] < 0x80 && buf[3] < 0x80) __CPROVER_assert(rv.code != RC_OK, "C04: inconsistent nested definite lengths are never accepted");
	}
}

VF_NATIVE_MAIN
