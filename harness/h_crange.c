/* C09: interval algebra under the PER/OER-visible constraint computation (libasn1fix/asn1fix_crange.c) */
#include <vf.h>
#include "asn1fix_internal.h"
_Static_assert(sizeof(asn1c_integer_t) == 16, "the harness must see the 128-bit asn1c_integer_t of the real build (HAVE_CONFIG_H)");
#include "asn1fix_constraint.h"
#include "asn1fix_crange.h"
#include "asn1fix_crange.c"

typedef asn1c_integer_t I;
/* semantic view of an edge: MIN = -infinity, MAX = +infinity */
static int edge_le_val(const asn1cnst_edge_t *e, I x) { return e->type == ARE_MIN || (e->type == ARE_VALUE && e->value <= x); }  /* e <= x */
static int val_le_edge(I x, const asn1cnst_edge_t *e) { return e->type == ARE_MAX || (e->type == ARE_VALUE && x <= e->value); }  /* x <= e */
static int in_range(const asn1cnst_range_t *r, I x) { return edge_le_val(&r->left, x) && val_le_edge(x, &r->right); }
/* well-formed simple range as the constraint parser produces them: left is MIN or a value, right a value or MAX, left <= right */
static int wf(const asn1cnst_range_t *r) {
	return (r->left.type == ARE_MIN || r->left.type == ARE_VALUE) && (r->right.type == ARE_MAX || r->right.type == ARE_VALUE)
		&& !(r->left.type == ARE_VALUE && r->right.type == ARE_VALUE && r->left.value > r->right.value) && r->el_count == 0 && r->elements == 0;
}
static void mk_edge(asn1cnst_edge_t *e, int t, I v) { e->type = (enum asn1cnst_range_edge)t; e->value = v; e->lineno = 0; }

#define EDGE(name) VF_SCALAR(int, name##_t); VF_SCALAR(I, name##_v); asn1cnst_edge_t name; \
	__CPROVER_assume(name##_t >= 0 && name##_t <= 2); mk_edge(&name, name##_t, name##_v)

/* _edge_compare is the order MIN < every value < MAX, values by magnitude: total, antisymmetric, transitive */
void h_edge_compare(void) {
	EDGE(a); EDGE(b); EDGE(c);
	int ab = _edge_compare(&a, &b), ba = _edge_compare(&b, &a), bc = _edge_compare(&b, &c), ac = _edge_compare(&a, &c);
	VF_CANARY();
	__CPROVER_assert(ab >= -1 && ab <= 1 && ab == -ba, "C09: edge order is antisymmetric");
	__CPROVER_assert(!(ab <= 0 && bc <= 0) || ac <= 0, "C09: edge order is transitive");
	__CPROVER_assert((ab == 0) == (a.type == b.type && (a.type != ARE_VALUE || a.value == b.value)), "C09: equal only for the same edge");
	if(a.type == ARE_VALUE && b.type == ARE_VALUE) __CPROVER_assert((ab < 0) == (a.value < b.value), "C09: values ordered by magnitude (128-bit)");
	if(a.type == ARE_MIN && b.type != ARE_MIN) __CPROVER_assert(ab < 0, "C09: MIN below everything");
	if(a.type == ARE_MAX && b.type != ARE_MAX) __CPROVER_assert(ab > 0, "C09: MAX above everything");
}

/* one call: the body against its contract (contracts/crange_contracts.h) */
void h_edge_compare_contract(void) {
	EDGE(a); EDGE(b);
	int ab = _edge_compare(&a, &b);
	VF_CANARY();
	if(a.type == ARE_VALUE && b.type == ARE_VALUE) __CPROVER_assert((ab < 0) == (a.value < b.value), "C09: values ordered by magnitude (128-bit)");
}

#define RANGE(name) EDGE(name##_l); EDGE(name##_r); asn1cnst_range_t name; memset(&name, 0, sizeof(name)); name.left = name##_l; name.right = name##_r; __CPROVER_assume(wf(&name))

/* _range_overlap <=> the two intervals share an integer */
void h_range_overlap(void) {
	RANGE(ra); RANGE(rb); VF_SCALAR(I, x);
	int ov = _range_overlap(&ra, &rb);
	VF_CANARY();
	if(in_range(&ra, x) && in_range(&rb, x)) __CPROVER_assert(ov == 1, "C09: intervals with a common integer overlap");
	if(ov == 1) {
		/* witness: the larger of the two left ends, or the smaller right end when both are unbounded below */
		I w = ra.left.type == ARE_VALUE ? (rb.left.type == ARE_VALUE && rb.left.value > ra.left.value ? rb.left.value : ra.left.value)
		    : rb.left.type == ARE_VALUE ? rb.left.value
		    : ra.right.type == ARE_VALUE ? (rb.right.type == ARE_VALUE && rb.right.value < ra.right.value ? rb.right.value : ra.right.value)
		    : rb.right.type == ARE_VALUE ? rb.right.value : 0;
		__CPROVER_assert(in_range(&ra, w) && in_range(&rb, w), "C09: overlap is reported only when a common integer exists");
	} else __CPROVER_assert(ov == 0, "C09: 0 or 1");
}

/* _range_split(ra, rb): pieces partition ra, each piece lies inside rb or outside rb */
void h_range_split(void) {
	RANGE(ra); RANGE(rb); VF_SCALAR(I, x); VF_SCALAR(I, y);
	/* the function's own limit: it refuses to step below INTMAX_MIN / above INTMAX_MAX */
	__CPROVER_assume(!(rb.left.type == ARE_VALUE && rb.left.value <= (I)INTMAX_MIN) && !(rb.right.type == ARE_VALUE && rb.right.value >= (I)INTMAX_MAX));
	asn1cnst_range_t *r = _range_split(&ra, &rb);
	VF_CANARY();
	int subset = _edge_compare(&ra.left, &rb.left) >= 0 && _edge_compare(&ra.right, &rb.right) <= 0;
	if(!_range_overlap(&ra, &rb) || subset) { __CPROVER_assert(r == 0, "C09: nothing to split when disjoint or when ra lies inside rb"); return; }
	__CPROVER_assert(r != 0 && r->el_count >= 2 && r->el_count <= 3, "C09: two or three pieces");
	int i, cnt = 0;
	for(i = 0; i < 3; i++) if(i < r->el_count) {
		const asn1cnst_range_t *p = r->elements[i];
		__CPROVER_assert(wf(p), "C09: every piece is a well-formed interval");
		if(in_range(p, x)) cnt++;
		if(in_range(p, x) && in_range(p, y)) __CPROVER_assert(in_range(&rb, x) == in_range(&rb, y), "C09: a piece is entirely inside or entirely outside rb");
		if(i + 1 < r->el_count) __CPROVER_assert(_edge_compare(&p->left, &r->elements[i + 1]->left) <= 0, "C09: pieces sorted by their left edge");
	}
	__CPROVER_assert(cnt == (in_range(&ra, x) ? 1 : 0), "C09: the pieces partition ra: every integer of ra lies in exactly one piece, no other integer in any");
	asn1constraint_range_free(r);
}

/* _range_intersection of two simple ranges (PER rules): the pieces left are exactly the common integers */
void h_range_intersection(void) {
	RANGE(a0); RANGE(rb); VF_SCALAR(I, x); VF_SCALAR(int, ext_a); VF_SCALAR(int, ext_b);
	__CPROVER_assume(!(rb.left.type == ARE_VALUE && rb.left.value <= (I)INTMAX_MIN) && !(rb.right.type == ARE_VALUE && rb.right.value >= (I)INTMAX_MAX));
	asn1cnst_range_t *ra = _range_new();
	__CPROVER_assume(ra != 0);
	ra->left = a0.left; ra->right = a0.right; ra->extensible = ext_a ? 1 : 0; rb.extensible = ext_b ? 1 : 0;
	int r = _range_intersection(ra, &rb, 0, 0);
	VF_CANARY();
	__CPROVER_assert(r == 0, "C09: intersection of simple ranges succeeds");
	__CPROVER_assert(ra->extensible == ((ext_a || ext_b) ? 1 : 0), "C09: X.691 10.3: the result is extensible iff an operand is");
	int i, cnt = 0;
	for(i = 0; i < 4; i++) if(i < ra->el_count) { if(in_range(ra->elements[i], x)) cnt++; }
	__CPROVER_assert(ra->el_count <= 3, "C09: at most three pieces");
	__CPROVER_assert(cnt == ((in_range(&a0, x) && in_range(&rb, x)) ? 1 : 0), "C09: an integer is in (exactly one piece of) the result iff it is in both operands");
	__CPROVER_assert((ra->empty_constraint != 0) == (_range_overlap(&a0, &rb) == 0), "C09: empty result flagged exactly for disjoint operands");
	asn1constraint_range_free(ra);
}

/* _range_union / _range_canonicalize over a parent with NP simple pieces: same set of integers, pieces sorted, disjoint, not adjacent */
#ifndef VF_NP
#define VF_NP 2
#endif
void h_range_union(void) {
	RANGE(p0); RANGE(p1);
#if VF_NP >= 3
	RANGE(p2);
#endif
	VF_SCALAR(I, x);
	asn1cnst_range_t *parent = _range_new();
	asn1cnst_range_t *e0 = _range_new(), *e1 = _range_new();
	__CPROVER_assume(parent && e0 && e1);
	e0->left = p0.left; e0->right = p0.right; e1->left = p1.left; e1->right = p1.right;
	_range_insert(parent, e0); _range_insert(parent, e1);
	int member = in_range(&p0, x) || in_range(&p1, x);
#if VF_NP >= 3
	asn1cnst_range_t *e2 = _range_new(); __CPROVER_assume(e2 != 0);
	e2->left = p2.left; e2->right = p2.right; _range_insert(parent, e2);
	member = member || in_range(&p2, x);
#endif
	/* adjacency arithmetic of the function: keep values away from the 128-bit limits */
#define SMALL(v) ((v) > -((I)1 << 100) && (v) < ((I)1 << 100))
	__CPROVER_assume(SMALL(p0_l_v) && SMALL(p0_r_v) && SMALL(p1_l_v) && SMALL(p1_r_v));
#if VF_NP >= 3
	__CPROVER_assume(SMALL(p2_l_v) && SMALL(p2_r_v));
#endif
	int r = _range_union(parent);
	VF_CANARY();
	__CPROVER_assert(r == 0 && parent->el_count >= 1 && parent->el_count <= VF_NP, "C09: union keeps between one and all pieces");
	int i, cnt = 0;
	for(i = 0; i < VF_NP; i++) if(i < parent->el_count) {
		const asn1cnst_range_t *q = parent->elements[i];
		__CPROVER_assert(wf(q), "C09: every piece stays a well-formed interval");
		if(in_range(q, x)) cnt++;
		if(i + 1 < parent->el_count) {
			const asn1cnst_range_t *n = parent->elements[i + 1];
			__CPROVER_assert(q->right.type == ARE_VALUE && n->left.type == ARE_VALUE && n->left.value - q->right.value > 1, "C09: pieces are sorted, disjoint and not adjacent after the union");
		}
	}
	__CPROVER_assert(cnt == (member ? 1 : 0), "C09: the union denotes exactly the integers of its operands (each in exactly one piece)");
	asn1constraint_range_free(parent);
}

/* _range_intersection of a two-piece parent (e.g. (1..3 | 8..10)) with a simple range: the pieces left are exactly the common integers */
void h_range_intersection2(void) {
	RANGE(p0); RANGE(p1); RANGE(rb); VF_SCALAR(I, x);
	__CPROVER_assume(SMALL(p0_l_v) && SMALL(p0_r_v) && SMALL(p1_l_v) && SMALL(p1_r_v) && SMALL(rb_l_v) && SMALL(rb_r_v));
	/* parent pieces as _range_union leaves them: sorted, disjoint, not adjacent */
	__CPROVER_assume(p0.right.type == ARE_VALUE && p1.left.type == ARE_VALUE && p1.left.value - p0.right.value > 1);
	asn1cnst_range_t *ra = _range_new(), *e0 = _range_new(), *e1 = _range_new();
	__CPROVER_assume(ra && e0 && e1);
	e0->left = p0.left; e0->right = p0.right; e1->left = p1.left; e1->right = p1.right;
	_range_insert(ra, e0); _range_insert(ra, e1);
	ra->left = p0.left; ra->right = p1.right;
	int r = _range_intersection(ra, &rb, 0, 0);
	VF_CANARY();
	__CPROVER_assert(r == 0, "C09: intersection succeeds");
	int i, cnt = 0;
	for(i = 0; i < 6; i++) if(i < ra->el_count) { if(in_range(ra->elements[i], x)) cnt++; }
	__CPROVER_assert(ra->el_count <= 4, "C09: at most four pieces");
	__CPROVER_assert(cnt == (((in_range(&p0, x) || in_range(&p1, x)) && in_range(&rb, x)) ? 1 : 0), "C09: an integer is in (exactly one piece of) the result iff it is in the parent and in the other operand");
	asn1constraint_range_free(ra);
}

VF_NATIVE_MAIN
