/* SEQUENCE over unaligned PER (C01, C02, C03, C04, C14): the real SEQUENCE_encode_uper / SEQUENCE_decode_uper / SEQUENCE_free
 * (with the real per_put_few_bits, per_get_few_bits, per_get_many_bits) run over a hand-laid descriptor of the shape asn1c
 * emits:   T ::= SEQUENCE { a SV, b SV OPTIONAL, c SV DEFAULT 7, e SV }     (no extension marker)
 * Member type SV is a harness stub: 8 bits.  X.691 18: one presence bit per OPTIONAL/DEFAULT root member, then the members. */
#include <vf.h>
#include <vf_cb.h>
#include <asn_internal.h>
#include <constr_SEQUENCE.h>
#include "constr_SEQUENCE.c"

struct sv { uint8_t got; uint8_t v; };
struct T { struct sv a; struct sv *b; struct sv *c; struct sv e; asn_struct_ctx_t _asn_ctx; };
static asn_TYPE_descriptor_t sv_td, T_td;
static asn_TYPE_operation_t sv_op;
static asn_TYPE_member_t T_elems[4];
static asn_SEQUENCE_specifics_t T_specs;
static const int T_oms[2] = { 1, 2 };

static asn_enc_rval_t sv_enc(const asn_TYPE_descriptor_t *td, const asn_per_constraints_t *ct, const void *sptr, asn_per_outp_t *po) {
	asn_enc_rval_t er; const struct sv *s = (const struct sv *)sptr;
	(void)ct;
	er.encoded = 0; er.failed_type = 0; er.structure_ptr = 0;
	if(per_put_few_bits(po, s->v, 8)) { er.encoded = -1; er.failed_type = td; er.structure_ptr = sptr; }
	return er;
}
static asn_dec_rval_t sv_dec(const asn_codec_ctx_t *c, const asn_TYPE_descriptor_t *td, const asn_per_constraints_t *ct, void **sptr, asn_per_data_t *pd) {
	asn_dec_rval_t rv; struct sv *s = (struct sv *)*sptr; int32_t v;
	(void)c; (void)td; (void)ct;
	rv.consumed = 0;
	if(!s) { s = (struct sv *)calloc(1, sizeof(*s)); *sptr = s; if(!s) { rv.code = RC_FAIL; return rv; } }
	v = per_get_few_bits(pd, 8);
	if(v < 0) { rv.code = RC_WMORE; return rv; }
	s->v = (uint8_t)v; s->got = 1; rv.code = RC_OK; rv.consumed = 8;
	return rv;
}
static void sv_free(const asn_TYPE_descriptor_t *td, void *p, enum asn_struct_free_method m) {
	(void)td;
	if(!p) return;
	if(m == ASFM_FREE_EVERYTHING) free(p);
	else if(m == ASFM_FREE_UNDERLYING_AND_RESET) memset(p, 0, sizeof(struct sv));
}
static int c_default_cmp(const void *sptr) { return ((const struct sv *)sptr)->v != 7; }
static int c_default_set(void **sptr) {
	struct sv *s = (struct sv *)*sptr;
	if(!s) { s = (struct sv *)calloc(1, sizeof(*s)); *sptr = s; if(!s) return -1; }
	s->v = 7; s->got = 1; return 0;
}
static void member(asn_TYPE_member_t *e, enum asn_TYPE_flags_e flags, unsigned optional, unsigned off, const char *name) {
	memset(e, 0, sizeof(*e)); e->flags = flags; e->optional = optional; e->memb_offset = off; e->type = &sv_td; e->name = name;
}
static void setup(void) {
	memset(&sv_op, 0, sizeof(sv_op)); sv_op.uper_encoder = sv_enc; sv_op.uper_decoder = sv_dec; sv_op.free_struct = sv_free;
	memset(&sv_td, 0, sizeof(sv_td)); sv_td.name = "SV"; sv_td.op = &sv_op;
	member(&T_elems[0], ATF_NOFLAGS, 0, offsetof(struct T, a), "a");
	member(&T_elems[1], ATF_POINTER, 2, offsetof(struct T, b), "b");
	member(&T_elems[2], ATF_POINTER, 1, offsetof(struct T, c), "c"); T_elems[2].default_value_cmp = c_default_cmp; T_elems[2].default_value_set = c_default_set;
	member(&T_elems[3], ATF_NOFLAGS, 0, offsetof(struct T, e), "e");
	memset(&T_specs, 0, sizeof(T_specs)); T_specs.struct_size = sizeof(struct T); T_specs.ctx_offset = offsetof(struct T, _asn_ctx);
	T_specs.oms = T_oms; T_specs.roms_count = 2; T_specs.first_extension = -1;
	memset(&T_td, 0, sizeof(T_td)); T_td.name = "T"; T_td.elements = T_elems; T_td.elements_count = 4; T_td.specifics = &T_specs;
}
static unsigned bit(const unsigned char *p, size_t i) { return (p[i >> 3] >> (7 - (i & 7))) & 1; }
static unsigned octet_at(const unsigned char *p, size_t bitpos) { unsigned v = 0; for(int j = 0; j < 8; j++) v = (v << 1) | bit(p, bitpos + j); return v; }

/* decode arbitrary bits */
void h_SEQUENCE_decode_uper(void) {
	VF_BYTES(buf, 6); VF_SCALAR(size_t, nbits); VF_SCALAR(size_t, skip);
	__CPROVER_assume(skip <= 7 && nbits <= 48 && skip <= nbits);
	setup();
	asn_per_data_t pd; memset(&pd, 0, sizeof(pd)); pd.buffer = buf; pd.nboff = skip; pd.nbits = nbits;
	void *st = 0;
	asn_dec_rval_t rv = SEQUENCE_decode_uper(0, &T_td, 0, &st, &pd);
	VF_CANARY();
	__CPROVER_assert(rv.code == RC_OK || rv.code == RC_WMORE || rv.code == RC_FAIL, "C04: return code");
	size_t avail = nbits - skip;
	unsigned pb = avail >= 2 ? bit(buf, skip) : 0, pc = avail >= 2 ? bit(buf, skip + 1) : 0;
	size_t need = 2 + 8 * (2 + pb + pc);
	if(rv.code == RC_OK) {
		struct T *t = (struct T *)st;
		__CPROVER_assert(avail >= need, "C04: RC_OK only when the value is all there");
		__CPROVER_assert(t->a.got && t->a.v == octet_at(buf, skip + 2), "C03: member a");
		__CPROVER_assert((t->b != 0) == (pb != 0) && (!pb || t->b->v == octet_at(buf, skip + 10)), "C03: OPTIONAL member b follows its presence bit");
		__CPROVER_assert(t->c != 0 && t->c->v == (pc ? octet_at(buf, skip + 10 + 8 * pb) : 7), "C03: DEFAULT member c: decoded when present, filled in when absent");
		__CPROVER_assert(t->e.got && t->e.v == octet_at(buf, skip + 10 + 8 * pb + 8 * pc), "C03: member e");
		__CPROVER_assert(pd.moved == need, "C03: consumes exactly the bits of the value");
	} else if(avail >= need) {
		/* only an allocation failure may make a complete value fail */
		__CPROVER_assert(rv.code == RC_FAIL, "C03: a complete value is not starved");
	}
	SEQUENCE_free(&T_td, st, ASFM_FREE_EVERYTHING);
}

/* encode every value; the bits are the X.691 ones; decoding them gives the value back */
void h_SEQUENCE_uper_roundtrip(void) {
	VF_BYTES(vals, 4); VF_SCALAR(int, has_b); VF_SCALAR(int, has_c);
	setup();
	struct T val; struct sv vb, vc; memset(&val, 0, sizeof(val));
	val.a.v = vals[0]; vb.v = vals[1]; vc.v = vals[2]; val.e.v = vals[3];
	val.b = has_b ? &vb : 0; val.c = has_c ? &vc : 0;
	int pb = has_b != 0, pc = has_c && vc.v != 7;
	asn_per_outp_t po; memset(&po, 0, sizeof(po)); po.buffer = po.tmpspace; po.nbits = 8 * sizeof(po.tmpspace); po.output = vf_cb;
	asn_enc_rval_t er = SEQUENCE_encode_uper(&T_td, 0, &val, &po);
	VF_CANARY();
	__CPROVER_assert(er.encoded != -1, "C01: every value is encoded");
	__CPROVER_assert(per_put_aligned_flush(&po) == 0, "flush");
	size_t nb = 2 + 8 * (2 + pb + pc);
	__CPROVER_assert(vf_cb_bytes == (nb + 7) / 8, "C02: size of the encoding");
	__CPROVER_assert(bit(vf_cb_log, 0) == (unsigned)pb && bit(vf_cb_log, 1) == (unsigned)pc, "C02/C06: presence bits: OPTIONAL present; DEFAULT present and different from the default");
	__CPROVER_assert(octet_at(vf_cb_log, 2) == val.a.v, "C02: member a");
	if(pb) __CPROVER_assert(octet_at(vf_cb_log, 10) == vb.v, "C02: member b");
	if(pc) __CPROVER_assert(octet_at(vf_cb_log, 10 + 8 * pb) == vc.v, "C02: member c");
	__CPROVER_assert(octet_at(vf_cb_log, 10 + 8 * pb + 8 * pc) == val.e.v, "C02: member e");
	asn_per_data_t pd; memset(&pd, 0, sizeof(pd)); pd.buffer = vf_cb_log; pd.nbits = 8 * vf_cb_bytes;
	void *st = 0;
	asn_dec_rval_t rv = SEQUENCE_decode_uper(0, &T_td, 0, &st, &pd);
	struct T *t = (struct T *)st;
	__CPROVER_assert(rv.code == RC_OK, "C01: the encoding is decoded");
	if(rv.code == RC_OK) __CPROVER_assert(t->a.v == val.a.v && (t->b != 0) == pb && (!pb || t->b->v == vb.v) && t->c && t->c->v == (has_c ? vc.v : 7) && t->e.v == val.e.v, "C01: decoding returns the value");
	SEQUENCE_free(&T_td, st, ASFM_FREE_EVERYTHING);
}

/* C07: the output callback refuses one call while the encoder runs (scratch space pre-filled so that every octet is flushed
 * through the callback): the failure is reported by the encoder or by the final flush, never swallowed */
void h_SEQUENCE_encode_uper_cbfail(void) {
	VF_BYTES(vals, 4); VF_SCALAR(int, has_b); VF_SCALAR(int, has_c); VF_SCALAR(long, fail_at);
	__CPROVER_assume(fail_at >= 0 && fail_at <= 5);
	setup();
	struct T val; struct sv vb, vc; memset(&val, 0, sizeof(val));
	val.a.v = vals[0]; vb.v = vals[1]; vc.v = vals[2]; val.e.v = vals[3];
	val.b = has_b ? &vb : 0; val.c = has_c ? &vc : 0;
	asn_per_outp_t po; memset(&po, 0, sizeof(po)); po.buffer = po.tmpspace + 31; po.nbits = 8; po.output = vf_cb;
	vf_cb_fail_at = fail_at;
	asn_enc_rval_t er = SEQUENCE_encode_uper(&T_td, 0, &val, &po);
	VF_CANARY();
	int fl = er.encoded == -1 ? -1 : per_put_aligned_flush(&po);
	if(vf_cb_failed) __CPROVER_assert(er.encoded == -1 || fl != 0, "C07: a failing output callback is reported");
}

VF_NATIVE_MAIN
