/* asn_SET_OF.c: generic list container (C14: ownership; C15: capacity proportional to the element count) */
#include <vf.h>
#include <asn_internal.h>
#include <asn_SET_OF.h>
#include "asn_SET_OF.c"

static int freed[8]; static int nfreed;
static char elems[8];
static void elem_free(void *p) { int i = (int)((char *)p - elems); if(i >= 0 && i < 8) freed[i]++; nfreed++; }

/* any sequence of up to 6 add / del operations, allocation may fail */
void h_asn_set_ops(void) {
	VF_BYTES(ops, 6); VF_SCALAR(int, nops); VF_SCALAR(int, with_free);
	__CPROVER_assume(nops >= 0 && nops <= 6);
	A_SET_OF(char) list; memset(&list, 0, sizeof(list));
	asn_anonymous_set_ *as = _A_SET_FROM_VOID(&list);
	if(with_free) as->free = elem_free;
	int i, next = 0, expected = 0;
	for(i = 0; i < 6; i++) if(i < nops) {
		if(ops[i] & 1) {   /* add */
			int r = asn_set_add(&list, &elems[next]);
			if(r == 0) { expected++; next++; }
			else __CPROVER_assert(r == -1 && as->count == expected, "C14: failed add leaves the list unchanged");
		} else {           /* delete some element, freeing it */
			int n = (ops[i] >> 1) & 7, before = as->count;
			asn_set_del(&list, n, 1);
			if(n < before) expected--;
		}
		__CPROVER_assert(as->count == expected && as->count <= as->size && (as->size == 0 || as->array != 0), "C04: count <= size, array present when size > 0");
		__CPROVER_assert(as->size <= 8 && (as->size == 0 || as->size >= 4) && as->size <= 2 * (as->count > 2 ? as->count : 2) + 4, "C15: capacity stays within a constant factor of the element count");
	}
	VF_CANARY();
	asn_set_empty(&list);
	__CPROVER_assert(as->count == 0 && as->size == 0 && as->array == 0, "C14: empty releases the array");
	if(with_free) {
		__CPROVER_assert(nfreed == next, "C14: every element that entered the list is released exactly once (by del or by empty)");
		__CPROVER_assert(freed[0] <= 1 && freed[1] <= 1 && freed[2] <= 1 && freed[3] <= 1 && freed[4] <= 1 && freed[5] <= 1, "C14: no element is released twice");
	}
}

VF_NATIVE_MAIN
