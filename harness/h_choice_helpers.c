/* Loop-free helpers of constr_CHOICE.c against their contracts (C03/C05: tag lookup order; C14/C18: presence index; C19: frames).
 * Complete proofs: every input, no loops. */
#include <vf.h>
#include <asn_internal.h>
#include <constr_CHOICE.h>
#include "constr_CHOICE.c"

void h_present_idx(void) {
	VF_BYTES(obj, 16); VF_SCALAR(unsigned, off); VF_SCALAR(unsigned, sz); VF_SCALAR(unsigned, present);
	__CPROVER_assume((sz == 1 || sz == 2 || sz == 4) && off <= 12 && off % sz == 0);
	unsigned char before[16]; for(int i = 0; i < 16; i++) before[i] = obj[i];
	_set_present_idx(obj, off, sz, present);
	VF_CANARY();
	unsigned got = _fetch_present_idx(obj, off, sz);
	__CPROVER_assert(got == (sz == 4 ? present : sz == 2 ? (present & 0xFFFF) : (present & 0xFF)), "C14/C18: the presence index stored is the one fetched (within the width of the field)");
	for(unsigned i = 0; i < 16; i++) if(i < off || i >= off + sz) __CPROVER_assert(obj[i] == before[i], "C19: nothing outside the presence field is written");
}
void h_search4tag(void) {       /* one call: the body against its contract */
	asn_TYPE_tag2member_t a, b;
	VF_SCALAR(ber_tlv_tag_t, ta); VF_SCALAR(ber_tlv_tag_t, tb); VF_SCALAR(unsigned, ea); VF_SCALAR(unsigned, eb);
	memset(&a, 0, sizeof(a)); memset(&b, 0, sizeof(b)); a.el_tag = ta; b.el_tag = tb; a.el_no = ea; b.el_no = eb;
	int r = _search4tag(&a, &b);
	VF_CANARY();
	__CPROVER_assert((r == 0) == (ta == tb), "C03: two table entries compare equal exactly when their tags are equal");
}
void h_search4tag_order(void) { /* three calls on the real body: a strict weak order, as bsearch needs */
	asn_TYPE_tag2member_t a, b, c;
	VF_SCALAR(ber_tlv_tag_t, ta); VF_SCALAR(ber_tlv_tag_t, tb); VF_SCALAR(ber_tlv_tag_t, tc);
	memset(&a, 0, sizeof(a)); memset(&b, 0, sizeof(b)); memset(&c, 0, sizeof(c)); a.el_tag = ta; b.el_tag = tb; c.el_tag = tc;
	int ab = _search4tag(&a, &b), ba = _search4tag(&b, &a), bc = _search4tag(&b, &c), ac = _search4tag(&a, &c);
	VF_CANARY();
	__CPROVER_assert(ab == -ba, "C03: the tag order used for bsearch is antisymmetric");
	if(ab <= 0 && bc <= 0) __CPROVER_assert(ac <= 0, "C03: and transitive");
}
VF_NATIVE_MAIN
