/* INTEGER over OER (X.696 clause 10): fixed-width and length-prefixed forms, canonical contents, round trip */
#include <vf.h>
#include <asn_internal.h>
#include <INTEGER.h>
#include <spec/x690.h>
#define VF_CB_CAP 12
#include <vf_cb.h>
#include <vf_alloc.h>
#include "oer_support.c"
#include "INTEGER.c"
#include "INTEGER_oer.c"

static size_t ulen64(uint64_t v) { return v < (1ull << 8) ? 1 : v < (1ull << 16) ? 2 : v < (1ull << 24) ? 3 : v < (1ull << 32) ? 4 : v < (1ull << 40) ? 5 : v < (1ull << 48) ? 6 : v < (1ull << 56) ? 7 : 8; }

void h_INTEGER_oer(void) {
	VF_SCALAR(int64_t, v); VF_SCALAR(unsigned, pad); VF_SCALAR(unsigned, wsel); VF_SCALAR(unsigned, positive);
	__CPROVER_assume(pad <= 2 && wsel <= 4 && positive <= 1);
	unsigned width = wsel == 0 ? 0 : wsel == 1 ? 1 : wsel == 2 ? 2 : wsel == 3 ? 4 : 8;
	/* in-memory INTEGER: minimal two's complement of v preceded by `pad` redundant sign-extension octets */
	uint8_t src[10]; size_t L = spec_int_len(v), i, n = pad + L;
	for(i = 0; i < 10; i++) src[i] = i < pad ? (v < 0 ? 0xFF : 0x00) : (i < n ? spec_int_octet(v, i - pad) : 0);
	INTEGER_t st; st.buf = src; st.size = n;
	asn_oer_constraints_t ct; ct.value.width = width; ct.value.positive = positive; ct.size = -1;
	int key = 0;
	asn_enc_rval_t er = INTEGER_encode_oer(&asn_DEF_INTEGER, &ct, &st, vf_cb, &key);
	VF_CANARY();
	size_t need = positive ? ulen64((uint64_t)v) : L;       /* fewest octets for the value in this layout */
	if((positive && v < 0) || (width && need > width)) { __CPROVER_assert(er.encoded == -1, "C07/C08: a value that does not fit the layout cannot be encoded"); return; }
	size_t body = width ? width : need, hdr = width ? 0 : 1;
	__CPROVER_assert(er.encoded == (ssize_t)(hdr + body) && vf_cb_bytes == hdr + body, "C02/C07: X.696 10.2-10.4 size; equals bytes delivered");
	if(!width) __CPROVER_assert(vf_cb_log[0] == need, "C02/C06: length determinant is the fewest octets (redundant in-memory octets do not reach the wire)");
	{	/* big-endian value, sign- or zero-extended to `body` octets */
		int ok = 1;
		for(i = 0; i < 8; i++) if(i < body) {
			size_t sh = body - 1 - i;
			uint8_t expect = sh >= 8 ? (v < 0 ? 0xFF : 0) : (uint8_t)(((uint64_t)v) >> (8 * sh));
			if(vf_cb_log[hdr + i] != expect) ok = 0;
		}
		__CPROVER_assert(ok, "C02: X.696 10: big-endian two's complement (signed) / unsigned binary (non-negative layouts)");
	}
	/* decode what was produced */
	void *sptr = 0;
	asn_dec_rval_t rv = INTEGER_decode_oer(0, &asn_DEF_INTEGER, &ct, &sptr, vf_cb_log, vf_cb_bytes);
	if(sptr && ((INTEGER_t *)sptr)->buf) {
		intmax_t back = 0;
		__CPROVER_assert(rv.code == RC_OK && rv.consumed == vf_cb_bytes, "C01: decode consumes exactly the bytes produced");
		__CPROVER_assert(asn_INTEGER2imax((INTEGER_t *)sptr, &back) == 0 ? back == v : (positive && v < 0), "C01: decode(encode(v)) == v");
	}
	if(sptr) { free(((INTEGER_t *)sptr)->buf); free(sptr); }
}

/* arbitrary bytes into the decoder */
void h_INTEGER_decode_oer(void) {
	VF_BYTES(buf, 12); VF_SCALAR(size_t, size); VF_SCALAR(unsigned, width); VF_SCALAR(unsigned, positive); VF_SCALAR(int, reuse);
	__CPROVER_assume(size <= 12 && width <= 8 && positive <= 1);
	asn_oer_constraints_t ct; ct.value.width = width; ct.value.positive = positive; ct.size = -1;
	void *sptr = 0;
	if(reuse) { INTEGER_t *o = (INTEGER_t *)calloc(1, sizeof(*o)); if(o) { o->buf = (uint8_t *)malloc(2); if(o->buf) o->size = 1; } sptr = o; }
	asn_dec_rval_t rv = INTEGER_decode_oer(0, &asn_DEF_INTEGER, &ct, &sptr, buf, size);
	VF_CANARY();
	__CPROVER_assert((rv.code == RC_OK || rv.code == RC_WMORE || rv.code == RC_FAIL) && rv.consumed <= size, "C04: code and consumed <= size");
	if(rv.code == RC_WMORE) __CPROVER_assert(rv.consumed == 0, "C05: starved decode consumes nothing");
	__CPROVER_assert(vf_alloc_peak_request <= size + 64, "C15: the decoder never asks the allocator for more than the input size plus a constant");
	if(rv.code == RC_OK) __CPROVER_assert(sptr && ((INTEGER_t *)sptr)->buf && ((INTEGER_t *)sptr)->buf[((INTEGER_t *)sptr)->size] == 0, "C04: result is a NUL-terminated INTEGER");
	if(sptr) { free(((INTEGER_t *)sptr)->buf); free(sptr); }
}

/* native vs wide over OER: NativeInteger_encode_oer produces exactly the bytes of the wide INTEGER with the same value, signed and unsigned */
#include "ber_tlv_tag.c"
#include "ber_tlv_length.c"
#include "ber_decoder.c"
#include "der_encoder.c"
#include "asn_codecs_prim.c"
#include "NativeInteger.c"
#include "NativeInteger_oer.c"
size_t vf_k;
void h_NativeInteger_oer(void) {
	VF_SCALAR(uint64_t, bits); VF_SCALAR(unsigned, wsel); VF_SCALAR(unsigned, uns);
	__CPROVER_assume(wsel <= 4 && uns <= 1);
	unsigned width = wsel == 0 ? 0 : wsel == 1 ? 1 : wsel == 2 ? 2 : wsel == 3 ? 4 : 8;
	asn_INTEGER_specifics_t specs; memset(&specs, 0, sizeof(specs)); specs.field_width = sizeof(long); specs.field_unsigned = uns;
	asn_TYPE_descriptor_t td = asn_DEF_NativeInteger; td.specifics = &specs;
	asn_oer_constraints_t ct; ct.value.width = width; ct.value.positive = uns; ct.size = -1;
	long native = (long)bits; int key = 0;
	asn_enc_rval_t er = NativeInteger_encode_oer(&td, &ct, &native, vf_cb, &key);
	VF_CANARY();
	size_t need = uns ? ulen64(bits) : spec_int_len((int64_t)bits);
	if(width && need > width) { __CPROVER_assert(er.encoded == -1, "C07: a value that does not fit the fixed width cannot be encoded"); return; }
	size_t body = width ? width : need, hdr = width ? 0 : 1, i; int ok = 1;
	__CPROVER_assert(er.encoded == (ssize_t)(hdr + body) && vf_cb_bytes == hdr + body, "C13/C02: same size as the wide representation (X.696 10)");
	if(!width) __CPROVER_assert(vf_cb_log[0] == need, "C13/C02: fewest octets");
	for(i = 0; i < 8; i++) if(i < body) {
		size_t sh = body - 1 - i;
		uint8_t expect = sh >= 8 ? ((!uns && (int64_t)bits < 0) ? 0xFF : 0) : (uint8_t)(bits >> (8 * sh));
		if(vf_cb_log[hdr + i] != expect) ok = 0;
	}
	__CPROVER_assert(ok, "C13/C02: big-endian value octets, also for unsigned values of 2^63 and above");
	long *back = 0;
	asn_dec_rval_t rv = NativeInteger_decode_oer(0, &td, &ct, (void **)&back, vf_cb_log, vf_cb_bytes);
	if(back) { if(rv.code == RC_OK) __CPROVER_assert(rv.consumed == vf_cb_bytes && (uint64_t)*back == bits, "C01: decode(encode(v)) == v"); free(back); }
}

VF_NATIVE_MAIN
