/* SEQUENCE OF over DER and SET OF / SEQUENCE OF over OER (C01, C02, C07): the real SEQUENCE_OF_encode_der (with
 * der_write_tags), SET_OF_encode_oer (with oer_put_quantity) and SET_OF_decode_oer run over a list of up to 3 stub
 * elements.  Element: DER = 80 01 v0, OER = v0 v1; v0 == 0xFF cannot be encoded.
 * Expected: DER 30 L e0 e1 e2 in list order (X.690 8.10); OER quantity (01 n) then the elements (X.696 17). */
#include <vf.h>
#include <vf_cb.h>
#include <asn_internal.h>
#include <constr_SEQUENCE_OF.h>
#include <constr_SET_OF.h>
#include "constr_SET_OF_oer.c"

struct sv { uint8_t got; uint8_t v[2]; };
struct L { A_SET_OF(struct sv) list; asn_struct_ctx_t _asn_ctx; };
static asn_TYPE_descriptor_t sv_td, L_td;
static asn_TYPE_operation_t sv_op;
static asn_TYPE_member_t L_elems[1];
static asn_SET_OF_specifics_t L_specs;
static const ber_tlv_tag_t L_tags[1] = { (ber_tlv_tag_t)(16 << 2) | ASN_TAG_CLASS_UNIVERSAL };

static asn_enc_rval_t sv_der(const asn_TYPE_descriptor_t *td, const void *sptr, int tag_mode, ber_tlv_tag_t tag, asn_app_consume_bytes_f *cb, void *key) {
	asn_enc_rval_t er; const struct sv *s = (const struct sv *)sptr; uint8_t out[3];
	(void)tag_mode; (void)tag;
	er.failed_type = 0; er.structure_ptr = 0;
	out[0] = 0x80; out[1] = 1; out[2] = s->v[0];
	if(s->v[0] == 0xFF || (cb && cb(out, 3, key) < 0)) { er.encoded = -1; er.failed_type = td; er.structure_ptr = sptr; return er; }
	er.encoded = 3;
	return er;
}
static asn_enc_rval_t sv_oenc(const asn_TYPE_descriptor_t *td, const asn_oer_constraints_t *ct, const void *sptr, asn_app_consume_bytes_f *cb, void *key) {
	asn_enc_rval_t er; const struct sv *s = (const struct sv *)sptr;
	(void)ct;
	er.failed_type = 0; er.structure_ptr = 0;
	if(s->v[0] == 0xFF || cb(s->v, 2, key) < 0) { er.encoded = -1; er.failed_type = td; er.structure_ptr = sptr; return er; }
	er.encoded = 2;
	return er;
}
static asn_dec_rval_t sv_odec(const asn_codec_ctx_t *c, const asn_TYPE_descriptor_t *td, const asn_oer_constraints_t *ct, void **sptr, const void *buf, size_t size) {
	asn_dec_rval_t rv; struct sv *s = (struct sv *)*sptr; const uint8_t *p = (const uint8_t *)buf;
	(void)c; (void)td; (void)ct;
	rv.consumed = 0;
	if(!s) { s = (struct sv *)calloc(1, sizeof(*s)); *sptr = s; if(!s) { rv.code = RC_FAIL; return rv; } }
	if(size < 2) { rv.code = RC_WMORE; return rv; }
	s->v[0] = p[0]; s->v[1] = p[1]; s->got = 2; rv.consumed = 2; rv.code = RC_OK;
	return rv;
}
static void sv_free(const asn_TYPE_descriptor_t *td, void *p, enum asn_struct_free_method m) { (void)td; if(p && m == ASFM_FREE_EVERYTHING) free(p); }
static void setup(void) {
	memset(&sv_op, 0, sizeof(sv_op)); sv_op.der_encoder = sv_der; sv_op.oer_encoder = sv_oenc; sv_op.oer_decoder = sv_odec; sv_op.free_struct = sv_free;
	memset(&sv_td, 0, sizeof(sv_td)); sv_td.name = "SV"; sv_td.op = &sv_op;
	memset(L_elems, 0, sizeof(L_elems)); L_elems[0].flags = ATF_POINTER; L_elems[0].tag = (ber_tlv_tag_t)(0 << 2) | ASN_TAG_CLASS_CONTEXT; L_elems[0].type = &sv_td; L_elems[0].name = "";
	memset(&L_specs, 0, sizeof(L_specs)); L_specs.struct_size = sizeof(struct L); L_specs.ctx_offset = offsetof(struct L, _asn_ctx);
	memset(&L_td, 0, sizeof(L_td)); L_td.name = "L"; L_td.tags = L_tags; L_td.tags_count = 1; L_td.all_tags = L_tags; L_td.all_tags_count = 1;
	L_td.elements = L_elems; L_td.elements_count = 1; L_td.specifics = &L_specs;
}
static struct sv e[3]; static struct sv *arr[3]; static struct L l;
static int fill(const unsigned char *vals, int count) {
	int bad = 0;
	for(int i = 0; i < 3; i++) { e[i].v[0] = vals[2 * i]; e[i].v[1] = vals[2 * i + 1]; e[i].got = 2; arr[i] = &e[i]; if(i < count && e[i].v[0] == 0xFF) bad = 1; }
	memset(&l, 0, sizeof(l)); l.list.array = arr; l.list.count = count; l.list.size = 3;
	return bad;
}

void h_SEQUENCE_OF_encode_der(void) {
	VF_BYTES(vals, 6); VF_SCALAR(int, count); VF_SCALAR(long, fail_at);
	__CPROVER_assume(count >= 0 && count <= 3 && fail_at >= -1 && fail_at <= 5);
	setup();
	int bad = fill(vals, count);
	vf_cb_fail_at = fail_at;
	asn_enc_rval_t er = SEQUENCE_OF_encode_der(&L_td, &l, 0, 0, vf_cb, 0);
	VF_CANARY();
	if(bad) { __CPROVER_assert(er.encoded == -1, "C07: an element that cannot be encoded makes the call fail"); return; }
	if(vf_cb_failed) { __CPROVER_assert(er.encoded == -1, "C07: a failing output callback makes the call fail"); return; }
	size_t n = 2 + 3 * (size_t)count;
	__CPROVER_assert(er.encoded == (ssize_t)n && vf_cb_bytes == n, "C02/C07: size of the encoding equals the bytes delivered");
	__CPROVER_assert(vf_cb_log[0] == 0x30 && vf_cb_log[1] == 3 * count, "C02: SEQUENCE OF header");
	for(int i = 0; i < 3; i++) if(i < count) __CPROVER_assert(vf_cb_log[2 + 3 * i] == 0x80 && vf_cb_log[3 + 3 * i] == 1 && vf_cb_log[4 + 3 * i] == e[i].v[0], "C02: elements in list order");
	asn_enc_rval_t es = SEQUENCE_OF_encode_der(&L_td, &l, 0, 0, 0, 0);
	__CPROVER_assert(es.encoded == er.encoded, "C07: estimating reports the size that encoding delivers");
}

void h_SET_OF_oer_roundtrip(void) {
	VF_BYTES(vals, 6);
#ifdef VF_COUNT
	const int count = VF_COUNT;      /* compile-time: the decoder's list growth with a symbolic count exhausts the SAT back end */
#else
	VF_SCALAR(int, count);
	__CPROVER_assume(count >= 0 && count <= 3);
#endif
	setup();
	int bad = fill(vals, count);
#ifdef VF_FAIL
	{ VF_SCALAR(long, fail_at); __CPROVER_assume(fail_at >= 0 && fail_at <= 4); vf_cb_fail_at = fail_at; }
#endif
	asn_enc_rval_t er = SET_OF_encode_oer(&L_td, 0, &l, vf_cb, 0);
	VF_CANARY();
	if(vf_cb_failed) { __CPROVER_assert(er.encoded == -1, "C07: a failing output callback makes the call fail"); return; }
	if(bad) { __CPROVER_assert(er.encoded == -1, "C07: an element that cannot be encoded makes the call fail"); return; }
	size_t n = 2 + 2 * (size_t)count;
	__CPROVER_assert(er.encoded == (ssize_t)n && vf_cb_bytes == n, "C02/C07: size of the encoding equals the bytes delivered");
	__CPROVER_assert(vf_cb_log[0] == 1 && vf_cb_log[1] == count, "C02: quantity field: length 1, then the number of elements");
	for(int i = 0; i < 3; i++) if(i < count) __CPROVER_assert(vf_cb_log[2 + 2 * i] == e[i].v[0] && vf_cb_log[3 + 2 * i] == e[i].v[1], "C02: elements in list order");
	void *st = 0;
	asn_dec_rval_t rv = SET_OF_decode_oer(0, &L_td, 0, &st, vf_cb_log, vf_cb_bytes);
	__CPROVER_assert(rv.code == RC_OK && rv.consumed == n, "C01: the encoding is decoded with its full length consumed");
	if(rv.code == RC_OK) {
		struct L *d = (struct L *)st;
		__CPROVER_assert(d->list.count == count, "C01: same number of elements");
		for(int i = 0; i < 3; i++) if(i < count) __CPROVER_assert(d->list.array[i]->v[0] == e[i].v[0] && d->list.array[i]->v[1] == e[i].v[1], "C01: same elements in the same order");
	}
	SET_OF_free(&L_td, st, ASFM_FREE_EVERYTHING);
}

VF_NATIVE_MAIN
