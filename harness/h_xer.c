/* XER engine (C03, C04, C05): the real xer_decode_general, xer_next_token, xer_check_tag and pxml_parse, i.e. the code every
 * primitive XER decoder runs on, with the element name "T" and a harness body receiver that appends the text it is given
 * (the receivers of the real types have their own obligations, e.g. OCTET_STRING__convert_hexadecimal).
 * Checked for every text of at most VF_N characters: return code, consumed <= size, termination, memory safety; every
 * two-chunk split gives the same code, total and body as one-shot decoding; and, against an independent reading,
 * <T>body</T> preceded by whitespace or a comment is accepted with the whole element consumed and the body delivered. */
#include <vf.h>
#include <asn_internal.h>
#include <xer_decoder.h>
#include <xer_support.h>

#ifndef VF_N
#define VF_N 8
#endif
struct acc { unsigned char body[32]; size_t n; int calls; asn_struct_ctx_t ctx; };
static ssize_t body_cb(void *key, const void *chunk, size_t size, int have_more) {
	struct acc *a = (struct acc *)key; (void)have_more;
	for(size_t i = 0; i < 32; i++) if(i < size && a->n < 32) a->body[a->n++] = ((const unsigned char *)chunk)[i];
	a->calls++;
	return (ssize_t)size;
}
static int is_ws(int c) { return c == 0x09 || c == 0x0a || c == 0x0c || c == 0x0d || c == 0x20; }
/* independent reading: ws* [<!--c*-->] ws* ( <T> text(no '<') </T> | <T/> ) */
static int spec_valid(const unsigned char *p, size_t n, size_t *b0, size_t *b1, size_t *total) {
	size_t i = 0;
	while(i < n && is_ws(p[i])) i++;
	if(i + 7 <= n && p[i] == '<' && p[i + 1] == '!' && p[i + 2] == '-' && p[i + 3] == '-') {
		size_t j = i + 4;
		while(j + 2 < n && !(p[j] == '-' && p[j + 1] == '-' && p[j + 2] == '>')) { if(p[j] == '-' && p[j + 1] == '-') return 0; j++; }
		if(j + 2 >= n) return 0;
		i = j + 3;
		while(i < n && is_ws(p[i])) i++;
	}
	if(i + 4 <= n && p[i] == '<' && p[i + 1] == 'T' && p[i + 2] == '/' && p[i + 3] == '>') { *b0 = *b1 = i + 4; *total = i + 4; return 1; }   /* empty element */
	if(i + 3 > n || p[i] != '<' || p[i + 1] != 'T' || p[i + 2] != '>') return 0;
	i += 3; *b0 = i;
	while(i < n && p[i] != '<') i++;
	*b1 = i;
	if(i + 4 > n || p[i] != '<' || p[i + 1] != '/' || p[i + 2] != 'T' || p[i + 3] != '>') return 0;
	*total = i + 4;
	return 1;
}
static int acc_eq(const struct acc *x, const struct acc *y) {
	if(x->n != y->n) return 0;
	for(size_t i = 0; i < 32; i++) if(i < x->n && x->body[i] != y->body[i]) return 0;
	return 1;
}

void h_xer_decode_general(void) {
	VF_BYTES(buf, VF_N); VF_SCALAR(size_t, size); VF_SCALAR(size_t, k);
	__CPROVER_assume(size <= VF_N && k <= size);
	struct acc a, b; memset(&a, 0, sizeof(a)); memset(&b, 0, sizeof(b));
	asn_dec_rval_t one = xer_decode_general(0, &a.ctx, &a, "T", buf, size, 0, body_cb);
	VF_CANARY();
	__CPROVER_assert(one.code == RC_OK || one.code == RC_WMORE || one.code == RC_FAIL, "C04: return code is RC_OK, RC_WMORE or RC_FAIL");
	__CPROVER_assert(one.consumed <= size, "C04: consumed <= size");
	{ size_t b0, b1, total;
	  if(spec_valid(buf, size, &b0, &b1, &total)) {
		__CPROVER_assert(one.code == RC_OK && one.consumed == total, "C03: <T>text</T> after whitespace and a comment is accepted with the whole element consumed");
		if(one.code == RC_OK) { __CPROVER_assert(a.n == b1 - b0, "C03: the body is delivered in full");
			for(size_t i = 0; i < VF_N; i++) if(i < a.n) __CPROVER_assert(a.body[i] == buf[b0 + i], "C03: and unchanged"); }
	  } }
	asn_dec_rval_t r1 = xer_decode_general(0, &b.ctx, &b, "T", buf, k, 0, body_cb);
	__CPROVER_assert(r1.consumed <= k, "C05: consumed does not exceed the chunk");
	if(one.code == RC_OK && k < one.consumed) __CPROVER_assert(r1.code == RC_WMORE, "C05: a proper prefix of a valid encoding yields RC_WMORE");
	if(r1.code == RC_WMORE) {
		asn_dec_rval_t r2 = xer_decode_general(0, &b.ctx, &b, "T", buf + r1.consumed, size - r1.consumed, 0, body_cb);
		__CPROVER_assert(r2.code == one.code, "C05: chunked decoding ends with the same return code as one-shot decoding");
		if(one.code == RC_OK) __CPROVER_assert(r1.consumed + r2.consumed == one.consumed, "C05: chunked decoding consumes the same total");      /* for an input that is still incomplete the tokeniser may hold back a different tail (e.g. a "-" that could start "-->") */
		if(one.code == RC_OK) __CPROVER_assert(acc_eq(&a, &b), "C05: chunked decoding delivers the same body");
	} else {
		__CPROVER_assert(r1.code == one.code, "C05: a chunk that decides the outcome decides it as the whole buffer does");
		if(one.code == RC_OK) __CPROVER_assert(r1.consumed == one.consumed && acc_eq(&a, &b), "C05: same consumed count and body");
	}
}

VF_NATIVE_MAIN
