/* C07 with the REAL primitive type encoders: asn_encode / asn_encode_to_buffer on a value of a built-in type, for one
 * concrete transfer syntax (VF_SYN) and type (VF_TYPE), callback failing at any call.  Checks the operation-slot
 * convention that the stub-type obligations assume: -1/EIO on callback failure (never an abort), else size == bytes delivered. */
#include <vf.h>
#include <asn_internal.h>
#include <asn_application.h>
#include <BOOLEAN.h>
#include <NULL.h>
#include <NativeInteger.h>
#include <INTEGER.h>
#include <OCTET_STRING.h>
#include <BIT_STRING.h>
#include <OBJECT_IDENTIFIER.h>
#include <errno.h>
#define VF_CB_CAP 1
#include <vf_cb.h>

#ifndef VF_TYPE
#define VF_TYPE 0
#endif
#ifndef VF_SYN
#define VF_SYN ATS_DER
#endif

void h_type_asn_encode(void) {
	VF_SCALAR(long, fail_at); VF_BYTES(raw, 4); VF_SCALAR(size_t, n); VF_SCALAR(int, unused);
	__CPROVER_assume(fail_at >= -1 && fail_at <= 4 && n <= 3 && unused >= 0 && unused <= 7);
	vf_cb_fail_at = fail_at;
	const asn_TYPE_descriptor_t *td; const void *val;
#if VF_TYPE == 0
	BOOLEAN_t v = raw[0]; td = &asn_DEF_BOOLEAN; val = &v;
#elif VF_TYPE == 1
	long v; memcpy(&v, raw, 4); td = &asn_DEF_NativeInteger; val = &v;
#elif VF_TYPE == 2
	__CPROVER_assume(n >= 1);
	INTEGER_t v; memset(&v, 0, sizeof(v)); v.buf = raw; v.size = n; td = &asn_DEF_INTEGER; val = &v;
#elif VF_TYPE == 3
	OCTET_STRING_t v; memset(&v, 0, sizeof(v)); v.buf = raw; v.size = n; td = &asn_DEF_OCTET_STRING; val = &v;
#elif VF_TYPE == 4
	BIT_STRING_t v; memset(&v, 0, sizeof(v)); v.buf = raw; v.size = n; v.bits_unused = n ? unused : 0; td = &asn_DEF_BIT_STRING; val = &v;
#else
	static uint8_t oid[3] = { 0x2a, 0x86, 0x48 };
	OBJECT_IDENTIFIER_t v; memset(&v, 0, sizeof(v)); v.buf = oid; v.size = 3; td = &asn_DEF_OBJECT_IDENTIFIER; val = &v;
#endif
	int key = 0;
	errno = 0;
	asn_enc_rval_t er = asn_encode(0, VF_SYN, td, val, vf_cb, &key);
	VF_CANARY();
	if(vf_cb_failed) __CPROVER_assert(er.encoded == -1 && errno == EIO, "C07: a failing output callback makes asn_encode return -1 with errno EIO, for the real type encoder too");
	else if(er.encoded >= 0) __CPROVER_assert((size_t)er.encoded == vf_cb_bytes, "C07: the reported size equals the number of bytes delivered to the callback");
	else __CPROVER_assert(errno == EBADF || errno == ENOENT || errno == EINVAL, "C07: an unencodable value fails with an errno");
}

VF_NATIVE_MAIN
