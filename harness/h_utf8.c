/* UTF8String: well-formedness check behind UTF8String_constraint (C08) and bounded conversion (C04) */
#include <vf.h>
#include <asn_internal.h>
#include <UTF8String.h>
#include "UTF8String.c"

#define NU 6
/* reference: ISO 10646 UTF-8 as originally defined (1..6 octet sequences), continuation octets 10xxxxxx, shortest form only */
static long ref_utf8_len(const unsigned char *b, size_t n) {
	size_t i = 0; long count = 0; int k;
	for(k = 0; k < NU; k++) if(i < n) {
		unsigned char c = b[i]; int want, j; unsigned long v;
		if(c < 0x80) want = 1; else if((c & 0xE0) == 0xC0) want = 2; else if((c & 0xF0) == 0xE0) want = 3; else if((c & 0xF8) == 0xF0) want = 4;
		else if((c & 0xFC) == 0xF8) want = 5; else if((c & 0xFE) == 0xFC) want = 6; else return -2;   /* illegal start */
		if(i + want > n) return -1;                                                                /* truncated */
		v = want == 1 ? c : (unsigned long)(c & (0xFF >> (want + 1)));
		for(j = 1; j < 6; j++) if(j < want) { unsigned char d = b[i + j]; if((d & 0xC0) != 0x80) return -3; v = (v << 6) | (d & 0x3F); }
		if(want == 2 && v < 0x80) return -4; if(want == 3 && v < 0x800) return -4; if(want == 4 && v < 0x10000) return -4;
		if(want == 5 && v < 0x200000) return -4; if(want == 6 && v < 0x4000000) return -4;   /* not the shortest form */
		i += want; count++;
	}
	return count;
}

void h_UTF8String(void) {
	VF_BYTES(b, NU); VF_SCALAR(size_t, n); VF_SCALAR(size_t, dstlen);
	__CPROVER_assume(n <= NU && dstlen <= 4);
	UTF8String_t st; memset(&st, 0, sizeof(st)); st.buf = b; st.size = n;
	ssize_t len = UTF8String_length(&st);
	int c = UTF8String_constraint(&asn_DEF_UTF8String, &st, 0, 0);
	uint32_t dst[4] = { 0xEEEEEEEE, 0xEEEEEEEE, 0xEEEEEEEE, 0xEEEEEEEE };
	size_t w = UTF8String_to_wcs(&st, dst, dstlen);
	VF_CANARY();
	long ref = ref_utf8_len(b, n);
	__CPROVER_assert((len >= 0) == (ref >= 0) && (len < 0 || len == ref), "C08: a string is accepted exactly when it is well-formed shortest-form UTF-8; the length is the number of characters");
	__CPROVER_assert(c == (ref >= 0 ? 0 : -1), "C08: UTF8String_constraint returns 0 iff the contents are well-formed UTF-8");
	__CPROVER_assert(w == (size_t)(ref >= 0 ? ref : 0), "C04: conversion reports the number of characters (0 for malformed input)");
	__CPROVER_assert(dstlen >= 4 || dst[dstlen] == 0xEEEEEEEE, "C04: at most dstlen code points are written");
}

VF_NATIVE_MAIN
