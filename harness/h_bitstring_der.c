/* C06/C02: BIT STRING over DER: unused bits are encoded as zero whatever the in-memory garbage (X.690 11.2.1) */
#include <vf.h>
#include <asn_internal.h>
#include <BIT_STRING.h>
#define VF_CB_CAP 12
#include <vf_cb.h>
#include "ber_tlv_tag.c"
#include "ber_tlv_length.c"
#include "der_encoder.c"
#include "OCTET_STRING.c"
#include "BIT_STRING.c"
size_t vf_k;
#ifndef VF_FINDING_D13
#define VF_FINDING_D13 0
#endif

void h_BIT_STRING_encode_der(void) {
	VF_BYTES(a, 4); VF_BYTES(b, 4); VF_SCALAR(size_t, n); VF_SCALAR(int, unused);
	__CPROVER_assume(n >= 1 && n <= 4 && unused >= 0 && unused <= 7);
	/* b denotes the same bit string as a: equal except in the unused bits of the last octet */
	{ size_t i; for(i = 0; i < 4; i++) if(i + 1 < n) __CPROVER_assume(b[i] == a[i]); }
	__CPROVER_assume((b[n - 1] >> unused) == (a[n - 1] >> unused));
	BIT_STRING_t sa, sb; memset(&sa, 0, sizeof(sa)); memset(&sb, 0, sizeof(sb));
	sa.buf = a; sa.size = n; sa.bits_unused = unused; sb.buf = b; sb.size = n; sb.bits_unused = unused;
	int key = 0;
	unsigned char first[VF_CB_CAP]; size_t first_n;
	asn_enc_rval_t ea = BIT_STRING_encode_der(&asn_DEF_BIT_STRING, &sa, 0, 0, vf_cb, &key);
	memcpy(first, vf_cb_log, VF_CB_CAP); first_n = vf_cb_bytes;
	vf_cb_bytes = 0; vf_cb_calls = 0;
	asn_enc_rval_t eb = BIT_STRING_encode_der(&asn_DEF_BIT_STRING, &sb, 0, 0, vf_cb, &key);
	VF_CANARY();
	__CPROVER_assert(ea.encoded == (ssize_t)(3 + n) && first_n == 3 + n && eb.encoded == ea.encoded, "C07/C02: tag, length, unused-bits octet, contents");
	__CPROVER_assert(first[0] == 0x03 && first[1] == n + 1 && first[2] == unused, "C02: X.690 8.6.2 initial octet is the number of unused bits");
	__CPROVER_assert((unsigned char)(first[2 + n] << (8 - unused)) == 0 || unused == 0, "C06: X.690 11.2.1 unused bits are zero in the DER encoding");
	{ size_t i; int same = 1; for(i = 0; i < VF_CB_CAP; i++) if(i < first_n && first[i] != vf_cb_log[i]) same = 0;
	  __CPROVER_assert(same, "C06: two in-memory representations of the same bit string give byte-identical DER"); }
}

/* malformed BIT STRING (bits_unused outside 0..7) must not trigger undefined behaviour in the encoder */
void h_BIT_STRING_encode_der_malformed(void) {
	VF_BYTES(a, 4); VF_SCALAR(size_t, n); VF_SCALAR(int, unused); VF_SCALAR(int, nullbuf);
	__CPROVER_assume(n <= 4);
	VF_FINDING(VF_FINDING_D13, unused < 0 || unused > 31);
	BIT_STRING_t sa; memset(&sa, 0, sizeof(sa)); sa.buf = (n == 0 && nullbuf) ? 0 : a; sa.size = n; sa.bits_unused = unused;   /* incl. the empty string with a non-zero count of unused bits */
	int key = 0;
	asn_enc_rval_t ea = BIT_STRING_encode_der(&asn_DEF_BIT_STRING, &sa, 0, 0, vf_cb, &key);
	VF_CANARY();
	__CPROVER_assert(ea.encoded == -1 || ea.encoded == (ssize_t)(3 + n), "C07: -1 or the size");
}

VF_NATIVE_MAIN
