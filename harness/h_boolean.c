/* BOOLEAN over DER / OER / UPER */
#include <vf.h>
#include <asn_internal.h>
#include <BOOLEAN.h>
#define VF_CB_CAP 12
#include <vf_cb.h>
#include "ber_tlv_tag.c"
#include "ber_tlv_length.c"
#include "ber_decoder.c"
#include "der_encoder.c"
#include "asn_bit_data.c"
#include "BOOLEAN.c"
size_t vf_k;

void h_BOOLEAN_roundtrip(void) {
	VF_SCALAR(int, v); VF_SCALAR(int, syntax);
	__CPROVER_assume(syntax >= 0 && syntax <= 2);
	BOOLEAN_t b = v; int key = 0;
	BOOLEAN_t *back = 0;
	if(syntax == 0) {
		asn_enc_rval_t er = BOOLEAN_encode_der(&asn_DEF_BOOLEAN, &b, 0, 0, vf_cb, &key);
		__CPROVER_assert(er.encoded == 3 && vf_cb_bytes == 3 && vf_cb_log[0] == 0x01 && vf_cb_log[1] == 0x01 && vf_cb_log[2] == (v ? 0xFF : 0x00), "C02: X.690 11.1 DER BOOLEAN is 01 01 FF / 01 01 00");
		asn_codec_ctx_t ctx; memset(&ctx, 0, sizeof(ctx));
		asn_dec_rval_t rv = BOOLEAN_decode_ber(&ctx, &asn_DEF_BOOLEAN, (void **)&back, vf_cb_log, vf_cb_bytes, 0);
		if(back) __CPROVER_assert(rv.code == RC_OK && rv.consumed == 3, "C01: decode consumes the encoding");
	} else if(syntax == 1) {
		asn_enc_rval_t er = BOOLEAN_encode_oer(&asn_DEF_BOOLEAN, 0, &b, vf_cb, &key);
		__CPROVER_assert(er.encoded == 1 && vf_cb_bytes == 1 && vf_cb_log[0] == (v ? 0xFF : 0x00), "C02: X.696 9: one octet FF / 00");
		asn_dec_rval_t rv = BOOLEAN_decode_oer(0, &asn_DEF_BOOLEAN, 0, (void **)&back, vf_cb_log, vf_cb_bytes);
		if(back) __CPROVER_assert(rv.code == RC_OK && rv.consumed == 1, "C01: decode consumes the encoding");
	} else {
		asn_per_outp_t po; memset(&po, 0, sizeof(po)); po.buffer = po.tmpspace; po.nbits = 8 * sizeof(po.tmpspace); po.output = vf_cb; po.op_key = &key;
		asn_enc_rval_t er = BOOLEAN_encode_uper(&asn_DEF_BOOLEAN, 0, &b, &po);
		int fl = asn_put_aligned_flush(&po);
		__CPROVER_assert(er.encoded == 0 && fl == 0 && vf_cb_bytes == 1 && vf_cb_log[0] == (v ? 0x80 : 0x00), "C02: X.691 12: a single bit");
		asn_per_data_t pd; memset(&pd, 0, sizeof(pd)); pd.buffer = vf_cb_log; pd.nbits = 8;
		asn_dec_rval_t rv = BOOLEAN_decode_uper(0, &asn_DEF_BOOLEAN, 0, (void **)&back, &pd);
		if(back) __CPROVER_assert(rv.code == RC_OK && pd.nboff == 1, "C01: decode consumes one bit");
	}
	VF_CANARY();
	if(back) { __CPROVER_assert(BOOLEAN_compare(&asn_DEF_BOOLEAN, &b, back) == 0 && (!*back) == (!v), "C01: decode(encode(v)) denotes the same truth value"); free(back); }
}

void h_BOOLEAN_decode_ber(void) {
	VF_BYTES(buf, 8); VF_SCALAR(size_t, size);
	__CPROVER_assume(size <= 8);
	BOOLEAN_t *out = 0;
	asn_codec_ctx_t ctx; memset(&ctx, 0, sizeof(ctx));
	asn_dec_rval_t rv = BOOLEAN_decode_ber(&ctx, &asn_DEF_BOOLEAN, (void **)&out, buf, size, 0);
	VF_CANARY();
	__CPROVER_assert((rv.code == RC_OK || rv.code == RC_WMORE || rv.code == RC_FAIL) && rv.consumed <= size, "C04: code and consumed <= size");
	if(rv.code != RC_OK) __CPROVER_assert(rv.consumed == 0, "C05: nothing consumed unless decoded");
	if(out && size >= 3 && buf[0] == 0x01 && buf[1] == 0x01) __CPROVER_assert(rv.code == RC_OK && rv.consumed == 3 && (!*out) == (buf[2] == 0), "C03: any non-zero contents octet is TRUE (X.690 8.2.2)");
	free(out);
}

VF_NATIVE_MAIN
