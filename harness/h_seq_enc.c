/* SEQUENCE encoders (C02, C06, C07): the real SEQUENCE_encode_der (with the real der_write_tags) and SEQUENCE_encode_oer
 * (with the real asn_put_few_bits / asn_put_aligned_flush / oer_open_type_put) run over a hand-laid descriptor of the
 * shape asn1c emits:   T ::= SEQUENCE { a [0] SV, b [1] SV OPTIONAL, c [2] SV, ..., d [3] SV DEFAULT 7, e [4] SV OPTIONAL }
 * Member type SV is a harness stub: DER  = <tag> 01 v0, OER = v0 v1; a value with v0 == 0xFF cannot be encoded.
 * The expected octets are written down independently below (X.690 8.9/11.5, X.696 16). */
#include <vf.h>
#include <vf_cb.h>
#include <asn_internal.h>
#include <constr_SEQUENCE.h>
#include "constr_SEQUENCE_oer.c"

struct sv { uint8_t v[2]; };
#ifndef VF_AOMS
#define VF_AOMS 2     /* number of extension additions: 2 (d, e) or 8 (d, e and six more that stay absent: a full bitmap octet) */
#endif
struct T { struct sv a; struct sv *b; struct sv c; struct sv *d; struct sv *e; struct sv *x[6]; asn_struct_ctx_t _asn_ctx; };

#define CTX(n) ((ber_tlv_tag_t)((n) << 2) | ASN_TAG_CLASS_CONTEXT)
static asn_TYPE_descriptor_t sv_td, T_td;
static asn_TYPE_operation_t sv_op;
static asn_TYPE_member_t T_elems[11];
static asn_SEQUENCE_specifics_t T_specs;
static const ber_tlv_tag_t T_tags[1] = { (ber_tlv_tag_t)(16 << 2) | ASN_TAG_CLASS_UNIVERSAL };

static asn_enc_rval_t sv_der(const asn_TYPE_descriptor_t *td, const void *sptr, int tag_mode, ber_tlv_tag_t tag, asn_app_consume_bytes_f *cb, void *key) {
	asn_enc_rval_t er; const struct sv *s = (const struct sv *)sptr; uint8_t out[3];
	(void)tag_mode;
	er.failed_type = 0; er.structure_ptr = 0;
	if(s->v[0] == 0xFF) { er.encoded = -1; er.failed_type = td; er.structure_ptr = sptr; return er; }
	out[0] = 0x80 | (uint8_t)(tag >> 2); out[1] = 1; out[2] = s->v[0];
	if(cb && cb(out, 3, key) < 0) { er.encoded = -1; er.failed_type = td; er.structure_ptr = sptr; return er; }
	er.encoded = 3;
	return er;
}
static asn_enc_rval_t sv_oer(const asn_TYPE_descriptor_t *td, const asn_oer_constraints_t *ct, const void *sptr, asn_app_consume_bytes_f *cb, void *key) {
	asn_enc_rval_t er; const struct sv *s = (const struct sv *)sptr;
	(void)ct;
	er.failed_type = 0; er.structure_ptr = 0;
	if(s->v[0] == 0xFF) { er.encoded = -1; er.failed_type = td; er.structure_ptr = sptr; return er; }
	if(cb(s->v, 2, key) < 0) { er.encoded = -1; er.failed_type = td; er.structure_ptr = sptr; return er; }
	er.encoded = 2;
	return er;
}
static int d_default_cmp(const void *sptr) { const struct sv *s = (const struct sv *)sptr; return !(s->v[0] == 7 && s->v[1] == 0); }
static void member(asn_TYPE_member_t *e, enum asn_TYPE_flags_e flags, unsigned optional, unsigned off, ber_tlv_tag_t tag, const char *name) {
	memset(e, 0, sizeof(*e)); e->flags = flags; e->optional = optional; e->memb_offset = off; e->tag = tag; e->tag_mode = -1; e->type = &sv_td; e->name = name;
}
static struct T val; static struct sv vb, vd, ve;
static int has_b, has_d, has_e;
static void setup(void) {
	memset(&sv_op, 0, sizeof(sv_op)); sv_op.der_encoder = sv_der; sv_op.oer_encoder = sv_oer;
	memset(&sv_td, 0, sizeof(sv_td)); sv_td.name = "SV"; sv_td.op = &sv_op;
	member(&T_elems[0], ATF_NOFLAGS, 0, offsetof(struct T, a), CTX(0), "a");
	member(&T_elems[1], ATF_POINTER, 1, offsetof(struct T, b), CTX(1), "b");
	member(&T_elems[2], ATF_NOFLAGS, 0, offsetof(struct T, c), CTX(2), "c");
	member(&T_elems[3], ATF_POINTER, 2, offsetof(struct T, d), CTX(3), "d"); T_elems[3].default_value_cmp = d_default_cmp;
	member(&T_elems[4], ATF_POINTER, 1, offsetof(struct T, e), CTX(4), "e");
	memset(&T_specs, 0, sizeof(T_specs)); T_specs.struct_size = sizeof(struct T); T_specs.ctx_offset = offsetof(struct T, _asn_ctx);
	for(int i = 0; i < 6; i++) member(&T_elems[5 + i], ATF_POINTER, 1, offsetof(struct T, x) + i * sizeof(struct sv *), CTX(5 + i), "x");
	T_specs.roms_count = 1; T_specs.aoms_count = VF_AOMS; T_specs.first_extension = 3;
	memset(&T_td, 0, sizeof(T_td)); T_td.name = "T"; T_td.tags = T_tags; T_td.tags_count = 1; T_td.all_tags = T_tags; T_td.all_tags_count = 1;
	T_td.elements = T_elems; T_td.elements_count = VF_AOMS == 8 ? 11 : 5; T_td.specifics = &T_specs;
}
static void inputs(void) {
	VF_BYTES(vals, 10); VF_SCALAR(int, pb); VF_SCALAR(int, pd); VF_SCALAR(int, pe);
	memset(&val, 0, sizeof(val));
	val.a.v[0] = vals[0]; val.a.v[1] = vals[1]; vb.v[0] = vals[2]; vb.v[1] = vals[3]; val.c.v[0] = vals[4]; val.c.v[1] = vals[5];
	vd.v[0] = vals[6]; vd.v[1] = vals[7]; ve.v[0] = vals[8]; ve.v[1] = vals[9];
	has_b = pb != 0; has_d = pd != 0; has_e = pe != 0;
	val.b = has_b ? &vb : 0; val.d = has_d ? &vd : 0; val.e = has_e ? &ve : 0;
}
static int unencodable(void) { return val.a.v[0] == 0xFF || (has_b && vb.v[0] == 0xFF) || val.c.v[0] == 0xFF; }

void h_SEQUENCE_encode_der(void) {
	unsigned char exp[2 + 15]; size_t n = 2;
	VF_SCALAR(long, fail_at);
	__CPROVER_assume(fail_at >= -1 && fail_at <= 8);
	setup(); inputs();
	int d_enc = has_d && d_default_cmp(&vd) != 0;
	int bad = unencodable() || (d_enc && vd.v[0] == 0xFF) || (has_e && ve.v[0] == 0xFF);
	exp[0] = 0x30;
	exp[n++] = 0x80; exp[n++] = 1; exp[n++] = val.a.v[0];
	if(has_b) { exp[n++] = 0x81; exp[n++] = 1; exp[n++] = vb.v[0]; }
	exp[n++] = 0x82; exp[n++] = 1; exp[n++] = val.c.v[0];
	if(d_enc) { exp[n++] = 0x83; exp[n++] = 1; exp[n++] = vd.v[0]; }
	if(has_e) { exp[n++] = 0x84; exp[n++] = 1; exp[n++] = ve.v[0]; }
	exp[1] = (unsigned char)(n - 2);
	vf_cb_fail_at = fail_at;
	asn_enc_rval_t er = SEQUENCE_encode_der(&T_td, &val, 0, 0, vf_cb, 0);
	VF_CANARY();
	if(bad) { __CPROVER_assert(er.encoded == -1, "C07: a member that cannot be encoded makes the call fail"); return; }
	if(vf_cb_failed) { __CPROVER_assert(er.encoded == -1, "C07: a failing output callback makes the call fail"); return; }
	__CPROVER_assert(er.encoded == (ssize_t)n, "C02: DER length of the SEQUENCE (absent OPTIONAL and DEFAULT-valued members omitted)");
	__CPROVER_assert((size_t)er.encoded == vf_cb_bytes, "C07: reported size equals the bytes delivered");
	for(size_t i = 0; i < sizeof(exp); i++) if(i < n) __CPROVER_assert(vf_cb_log[i] == exp[i], "C02/C06: DER octets of the SEQUENCE");
	/* size estimation (no callback) reports the same size */
	asn_enc_rval_t es = SEQUENCE_encode_der(&T_td, &val, 0, 0, 0, 0);
	__CPROVER_assert(es.encoded == er.encoded, "C07: estimating reports the size that encoding delivers");
}

void h_SEQUENCE_encode_oer(void) {
	unsigned char exp[1 + 6 + 3 + 6]; size_t n = 0;
	setup(); inputs();
	int d_enc = has_d && d_default_cmp(&vd) != 0;
	int ext = d_enc || has_e;
	int bad = unencodable() || (d_enc && vd.v[0] == 0xFF) || (has_e && ve.v[0] == 0xFF);
	exp[n++] = (unsigned char)((ext ? 0x80 : 0) | (has_b ? 0x40 : 0));
	exp[n++] = val.a.v[0]; exp[n++] = val.a.v[1];
	if(has_b) { exp[n++] = vb.v[0]; exp[n++] = vb.v[1]; }
	exp[n++] = val.c.v[0]; exp[n++] = val.c.v[1];
	if(ext) {
		exp[n++] = 2; exp[n++] = (unsigned char)((8 - (VF_AOMS & 7)) & 7); exp[n++] = (unsigned char)((d_enc ? 0x80 : 0) | (has_e ? 0x40 : 0));    /* length, unused bits of the bitmap (X.696 16.4.2), bitmap */
		if(d_enc) { exp[n++] = 2; exp[n++] = vd.v[0]; exp[n++] = vd.v[1]; }
		if(has_e) { exp[n++] = 2; exp[n++] = ve.v[0]; exp[n++] = ve.v[1]; }
	}
#ifdef VF_OER_FAIL
	{ VF_SCALAR(long, fail_at); __CPROVER_assume(fail_at >= -1 && fail_at <= 8); vf_cb_fail_at = fail_at; }
#endif
	asn_enc_rval_t er = SEQUENCE_encode_oer(&T_td, 0, &val, vf_cb, 0);
	VF_CANARY();
	if(bad) { __CPROVER_assert(er.encoded == -1, "C07: a member that cannot be encoded makes the call fail"); return; }
	if(vf_cb_failed) { __CPROVER_assert(er.encoded == -1, "C07: a failing output callback makes the call fail"); return; }
	__CPROVER_assert(er.encoded == (ssize_t)n, "C02: OER length of the SEQUENCE");
	__CPROVER_assert((size_t)er.encoded == vf_cb_bytes, "C07: reported size equals the bytes delivered");
	for(size_t i = 0; i < sizeof(exp); i++) if(i < n) __CPROVER_assert(vf_cb_log[i] == exp[i], "C02/C06: OER octets: preamble, root members, extension bitmap and open types; a DEFAULT-valued addition is not sent");
}

VF_NATIVE_MAIN
