/* pxml_parse against its contract: every buffer length, every parser state, a callback that may answer anything (C04 for XER;
 * C19 frame).  The callback is a harness stub without side effects whose return value is arbitrary. */
#include <vf.h>
#include <asn_internal.h>
#include <xer_support.h>
static int tok_cb(pxml_chunk_type_e type, const void *chunk, size_t size, void *key) { VF_SCALAR(int, answer); (void)type; (void)chunk; (void)size; (void)key; return answer; }
void h_pxml_parse(void) {
	VF_SCALAR(size_t, n); VF_SCALAR(int, st);
	__CPROVER_assume(n <= ((size_t)1 << 40));
	char *buf = (char *)malloc(n); __CPROVER_assume(buf != 0);
	int *ctx = (int *)malloc(sizeof(int)); __CPROVER_assume(ctx != 0); *ctx = st;
	ssize_t r = pxml_parse(ctx, buf, n, tok_cb, 0);
	VF_CANARY();
	__CPROVER_assert(r >= 0 && (size_t)r <= n, "C04: consumed within the buffer");
}
VF_NATIVE_MAIN
