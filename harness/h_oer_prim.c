/* OER primitives: open type skipping, primitive octet containers (X.696 8.6, 27.2, 30) */
#include <vf.h>
#include <asn_internal.h>
#include <asn_codecs_prim.h>
#include <oer_decoder.h>
#include <oer_encoder.h>
#define VF_CB_CAP 16
#include <vf_cb.h>
#include <vf_alloc.h>
#include "oer_support.c"
#include "oer_decoder.c"
#include "oer_encoder.c"
size_t vf_k;
#ifndef VF_FINDING_D6
#define VF_FINDING_D6 0
#endif
#define NB 12

/* an open type (extension addition the decoder does not know) is skipped as a whole: determinant + contents */
void h_oer_open_type_skip(void) {
	VF_BYTES(buf, NB); VF_SCALAR(size_t, size);
	__CPROVER_assume(size <= NB);
	ssize_t r = oer_open_type_skip(buf, size);
	VF_CANARY();
	size_t len = 0x5a;
	ssize_t ll = oer_fetch_length(buf, size, &len);
	VF_FINDING(VF_FINDING_D6, ll > 0 && len > 0);
	__CPROVER_assert(r >= -1 && (r <= 0 || (size_t)r <= size), "C04: consumed <= size");
	if(ll < 0) __CPROVER_assert(r == -1, "C04: invalid length determinant");
	else if(ll == 0 || size - ll < len) __CPROVER_assert(r == 0, "C05: incomplete open type wants more");
	else __CPROVER_assert(r == (ssize_t)(ll + len), "C03: an unknown open type is skipped entirely: length determinant plus contents");
}

/* arbitrary bytes into oer_decode_primitive */
void h_oer_decode_primitive(void) {
	VF_BYTES(buf, NB); VF_SCALAR(size_t, size); VF_SCALAR(int, reuse);
	__CPROVER_assume(size <= NB);
	asn_TYPE_descriptor_t td; memset(&td, 0, sizeof(td)); td.name = "P";
	void *sptr = 0;
	if(reuse) { ASN__PRIMITIVE_TYPE_t *o = (ASN__PRIMITIVE_TYPE_t *)calloc(1, sizeof(*o)); if(o) { o->buf = (uint8_t *)malloc(2); if(o->buf) o->size = 1; } sptr = o; }
	asn_dec_rval_t rv = oer_decode_primitive(0, &td, 0, &sptr, buf, size);
	VF_CANARY();
	__CPROVER_assert((rv.code == RC_OK || rv.code == RC_WMORE || rv.code == RC_FAIL) && rv.consumed <= size, "C04: code and consumed <= size");
	if(rv.code == RC_WMORE) __CPROVER_assert(rv.consumed == 0, "C05: starved decode consumes nothing");
	__CPROVER_assert(vf_alloc_peak_request <= size + 64, "C15: the decoder never asks the allocator for more than the input size plus a constant");
	if(sptr) {
		ASN__PRIMITIVE_TYPE_t *st = (ASN__PRIMITIVE_TYPE_t *)sptr;
		if(rv.code == RC_OK) {
			size_t len = 0; ssize_t ll = oer_fetch_length(buf, size, &len);
			__CPROVER_assert(ll > 0 && st->size == len && rv.consumed == ll + len && st->buf && st->buf[len] == 0, "C01/C04: contents are the octets after the length determinant, NUL terminated");
			__CPROVER_assert(len == 0 || st->buf[len - 1] == buf[rv.consumed - 1], "C01: last contents octet");
		}
		ASN__PRIMITIVE_TYPE_free(&td, sptr, ASFM_FREE_EVERYTHING);
	}
}

/* encode then decode */
void h_oer_primitive_roundtrip(void) {
	VF_BYTES(content, 6); VF_SCALAR(size_t, n); VF_SCALAR(long, fail_at);
	__CPROVER_assume(n <= 6 && fail_at >= -1 && fail_at <= 2);
	asn_TYPE_descriptor_t td; memset(&td, 0, sizeof(td)); td.name = "P";
	ASN__PRIMITIVE_TYPE_t src; src.buf = content; src.size = n;
	int key = 0;
	vf_cb_fail_at = fail_at;
	asn_enc_rval_t er = oer_encode_primitive(&td, 0, &src, vf_cb, &key);
	VF_CANARY();
	if(vf_cb_failed) { __CPROVER_assert(er.encoded == -1, "C07: callback failure gives -1"); return; }
	__CPROVER_assert(er.encoded == (ssize_t)vf_cb_bytes && er.encoded == (ssize_t)(1 + n) && vf_cb_log[0] == n, "C02/C07: X.696 27.2 length determinant then the octets; size equals bytes delivered");
	void *sptr = 0;
	asn_dec_rval_t rv = oer_decode_primitive(0, &td, 0, &sptr, vf_cb_log, vf_cb_bytes);
	if(sptr) {
		ASN__PRIMITIVE_TYPE_t *st = (ASN__PRIMITIVE_TYPE_t *)sptr;
		if(st->buf) {
			__CPROVER_assert(rv.code == RC_OK && rv.consumed == vf_cb_bytes && st->size == n, "C01: decode(encode(v)) consumes everything");
			__CPROVER_assert((n <= 0 || st->buf[0] == content[0]) && (n <= 1 || st->buf[1] == content[1]) && (n <= 2 || st->buf[2] == content[2]) && (n <= 3 || st->buf[3] == content[3]) && (n <= 4 || st->buf[4] == content[4]) && (n <= 5 || st->buf[5] == content[5]), "C01: same octets");
		}
		ASN__PRIMITIVE_TYPE_free(&td, sptr, ASFM_FREE_EVERYTHING);
	}
}

VF_NATIVE_MAIN
