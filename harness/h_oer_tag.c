/* OER tag of a CHOICE alternative (X.696 8.7): class in bits 8-7, number in bits 6-1, or 0x3F escape + base-128 */
#include <vf.h>
#include <asn_internal.h>
#include <constr_CHOICE.h>
#define VF_CB_CAP 12
#include <vf_cb.h>
#include "constr_CHOICE_oer.c"
#ifndef VF_FINDING_D14
#define VF_FINDING_D14 0
#endif

static size_t spec_oer_tag_len(unsigned tag) { unsigned n = tag >> 2; return n < 63 ? 1 : n < (1u << 7) ? 2 : n < (1u << 14) ? 3 : n < (1u << 21) ? 4 : n < (1u << 28) ? 5 : 6; }
static uint8_t spec_oer_tag_octet(unsigned tag, size_t i) {
	unsigned n = tag >> 2, c = tag & 3; size_t len = spec_oer_tag_len(tag);
	if(len == 1) return (uint8_t)((c << 6) | n);
	if(i == 0) return (uint8_t)((c << 6) | 0x3F);
	{ uint8_t g = (uint8_t)((n >> (7 * (len - 1 - i))) & 0x7F); return (uint8_t)(i == len - 1 ? g : (0x80 | g)); }
}

void h_oer_put_tag(void) {
	VF_SCALAR(ber_tlv_tag_t, tag); VF_SCALAR(long, fail_at);
	__CPROVER_assume(fail_at >= -1 && fail_at <= 0 && (tag >> 2) < (1u << 30));
	VF_FINDING(VF_FINDING_D14, (tag >> 2) >= 128);
	vf_cb_fail_at = fail_at;
	int key = 0;
	ssize_t r = oer_put_tag(tag, vf_cb, &key);
	VF_CANARY();
	if(vf_cb_failed) { __CPROVER_assert(r == -1, "C07: callback failure gives -1"); return; }
	size_t n = spec_oer_tag_len(tag);
	__CPROVER_assert(r == (ssize_t)n && vf_cb_bytes == n, "C02/C07: X.696 8.7 tag length; size equals bytes delivered");
	__CPROVER_assert(vf_cb_log[0] == spec_oer_tag_octet(tag, 0) && (n <= 1 || vf_cb_log[1] == spec_oer_tag_octet(tag, 1)) && (n <= 2 || vf_cb_log[2] == spec_oer_tag_octet(tag, 2))
		&& (n <= 3 || vf_cb_log[3] == spec_oer_tag_octet(tag, 3)) && (n <= 4 || vf_cb_log[4] == spec_oer_tag_octet(tag, 4)) && (n <= 5 || vf_cb_log[5] == spec_oer_tag_octet(tag, 5)),
		"C02: X.696 8.7.2: 0x3F escape, then base-128 big-endian, bit 8 set on all but the last octet");
	{ ber_tlv_tag_t back = 0; __CPROVER_assert(oer_fetch_tag(vf_cb_log, vf_cb_bytes, &back) == (ssize_t)n && back == tag, "C01: oer_fetch_tag(oer_put_tag(tag)) == tag"); }
}

void h_oer_fetch_tag(void) {
	VF_BYTES(buf, 10); VF_SCALAR(size_t, size); VF_SCALAR(size_t, cut);
	__CPROVER_assume(size <= 10 && cut <= size);
	ber_tlv_tag_t t1 = 0, t2 = 0;
	ssize_t r = oer_fetch_tag(buf, size, &t1);
	ssize_t r2 = oer_fetch_tag(buf, cut, &t2);
	VF_CANARY();
	__CPROVER_assert(r >= -1 && (r <= 0 || (size_t)r <= size), "C04: consumed <= size");
	if(size >= 1 && (buf[0] & 0x3F) != 0x3F) __CPROVER_assert(r == 1 && t1 == (((buf[0] & 0x3Fu) << 2) | (buf[0] >> 6)), "C03: X.696 8.7.1 one-octet tag");
	if(r > 0 && cut < (size_t)r) __CPROVER_assert(r2 == 0, "C05: a proper prefix of a tag wants more");
	if(r > 0 && cut >= (size_t)r) __CPROVER_assert(r2 == r && t2 == t1, "C05: bytes after the tag do not matter");
}

VF_NATIVE_MAIN
