/* bounded stand-in (native grid): SET OF over canonical unaligned PER, which CBMC does not get through (SAT back end out of
 * memory for one element).  Assertions of harness/h_setof_uper_enc.c (C02 length determinant, C06 elements sorted whatever the
 * order in memory, C07 output failure reported, C14 nothing leaked: LeakSanitizer) for lists of 0..3 elements: every pair of
 * values for 2 elements, a 24^3 grid for 3, every output failure point 0..3 and no failure.  (The file is compiled once per
 * count: VF_COUNT.) */
#define VF_GRID 1
#include "h_setof_uper_enc.c"
static unsigned char vals[3];
static void run(long fail_at) {
	vf_grid_n = 0;
	vf_grid_tab[vf_grid_n++] = (struct vf_grid_in){ "vals", 0, vals, 3 };
	vf_grid_tab[vf_grid_n++] = (struct vf_grid_in){ "fail_at", (unsigned __int128)(__int128)fail_at, 0, 0 };
	vf_cb_bytes = vf_cb_calls = 0; vf_cb_failed = 0; memset(vf_cb_log, 0, sizeof(vf_cb_log));
	VF_GRID_RUN(h_SET_OF_encode_uper);
}
int main(void) {
	static const unsigned char G[24] = { 0, 1, 2, 3, 7, 8, 15, 16, 31, 32, 63, 64, 65, 127, 128, 129, 191, 192, 200, 240, 250, 253, 254, 255 };
	for(long f = -1; f <= 3; f++) {
#if VF_COUNT <= 1
		for(int a = 0; a < 256; a++) { vals[0] = (unsigned char)a; run(f); }
#elif VF_COUNT == 2
		for(int a = 0; a < 256; a++) for(int b = 0; b < 256; b++) { vals[0] = (unsigned char)a; vals[1] = (unsigned char)b; run(f); }
#else
		for(int a = 0; a < 24; a++) for(int b = 0; b < 24; b++) for(int c = 0; c < 24; c++) { vals[0] = G[a]; vals[1] = G[b]; vals[2] = G[c]; run(f); }
#endif
	}
	return VF_GRID_SUMMARY();
}
