/* C20 (safety half): unber on arbitrary bytes terminates with a diagnostic or success, never a memory error
 * or a failed assertion.  The whole tool library is the real code; input/output streams are harness objects. */
#include <vf.h>
#include <stdarg.h>
#include "libasn1_unber_tool.c"

#ifndef VF_UNBER_N
#define VF_UNBER_N 7
#endif
struct in_mem { input_stream_t base; const unsigned char *data; size_t size, pos; };
static int mem_next(input_stream_t *ibs) { struct in_mem *m = (struct in_mem *)ibs; return m->pos < m->size ? m->data[m->pos++] : -1; }
static off_t mem_read(input_stream_t *ibs) { return (off_t)((struct in_mem *)ibs)->pos; }
static int out_calls, err_calls;
static int out_vprintf(output_stream_t *os, const char *fmt, va_list ap) { (void)os; (void)fmt; (void)ap; out_calls++; return 0; }
static int err_vprintf(output_stream_t *os, const char *fmt, va_list ap) { (void)os; (void)fmt; (void)ap; err_calls++; return 0; }

void h_unber_stream(void) {
	VF_BYTES(data, VF_UNBER_N); VF_SCALAR(size_t, size); VF_SCALAR(int, pretty); VF_SCALAR(int, single); VF_SCALAR(int, minimal);
	__CPROVER_assume(size <= VF_UNBER_N);
#ifdef VF_PRETTY
	pretty = VF_PRETTY; single = 1; minimal = 0;
#endif
	struct in_mem in; in.base.nextChar = mem_next; in.base.bytesRead = mem_read; in.data = data; in.size = size; in.pos = 0;
	output_stream_t os; os.vprintf = out_vprintf; os.vprintfError = err_vprintf;
	set_pretty_printing(pretty ? 1 : 0); set_single_type_decoding(single ? 1 : 0); set_minimalistic_output(minimal ? 1 : 0);
	int r = unber_stream("in", &in.base, &os);
	VF_CANARY();
	__CPROVER_assert(r == 0 || r == -1, "C20: unber ends with success or a failure code");
	__CPROVER_assert(in.pos <= size, "C20: never reads past the input");
	if(r == -1) __CPROVER_assert(err_calls >= 1, "C20: every failure comes with a diagnostic");
}

VF_NATIVE_MAIN
