/* xer_whitespace_span against its contract for chunks of every length (C03/C04 of the XER whitespace handling; C19 frame) */
#include <vf.h>
#include <asn_internal.h>
#include <xer_decoder.h>
size_t vf_k, vf_len;
void h_xer_whitespace_span(void) {
	VF_SCALAR(size_t, n); VF_SCALAR(size_t, k);
	__CPROVER_assume(n <= ((size_t)1 << 40));
	char *buf = (char *)malloc(n); __CPROVER_assume(buf != 0);
	vf_k = k;
	size_t r = xer_whitespace_span(buf, n);
	VF_CANARY();
	__CPROVER_assert(r <= n, "C04: the span does not exceed the chunk");
}
void h_xer_check_tag(void) {
	VF_SCALAR(int, n); VF_SCALAR(size_t, len); VF_SCALAR(int, no_name);
	__CPROVER_assume(n >= 0 && n <= (1 << 30) && len <= (1u << 30));
	char *buf = (char *)malloc((size_t)n); __CPROVER_assume(buf != 0);
	char *name = no_name ? 0 : (char *)malloc(len + 1);
	if(!no_name) { __CPROVER_assume(name != 0); name[len] = 0; }
	vf_len = len;
	xer_check_tag_e r = xer_check_tag(buf, n, name);
	VF_CANARY();
	__CPROVER_assert(r >= XCT_BROKEN && r <= XCT_UNKNOWN_BO, "C04: a defined classification for every token");
}
VF_NATIVE_MAIN
