/* xer_whitespace_span against its contract for chunks of every length (C03/C04 of the XER whitespace handling; C19 frame) */
#include <vf.h>
#include <asn_internal.h>
#include <xer_decoder.h>
size_t vf_k;
void h_xer_whitespace_span(void) {
	VF_SCALAR(size_t, n); VF_SCALAR(size_t, k);
	__CPROVER_assume(n <= ((size_t)1 << 40));
	char *buf = (char *)malloc(n); __CPROVER_assume(buf != 0);
	vf_k = k;
	size_t r = xer_whitespace_span(buf, n);
	VF_CANARY();
	__CPROVER_assert(r <= n, "C04: the span does not exceed the chunk");
}
VF_NATIVE_MAIN
