/* bounded stand-in (native grid): CHOICE over OER (variant VF_X=1 of harness/h_choice_oer.c) with longer inputs than the CBMC
 * obligations reach: every sequence of at most 3 of the fragments below (tags of both alternatives in short and long form, an
 * unknown tag, open-type lengths, value octets incl. the invalid ff) x every truncation x every two-chunk split. */
#define VF_GRID 1
#define VF_X 1
#define VF_N 16
#include "h_choice_oer.c"
#define VF_TLVS 3
#define NT 9
#define NFORMS 1
#define OUTER 0
static const unsigned char TPL[NT][6] = { {1, 0x81}, {1, 0x83}, {3, 0xbf, 0x80, 0x03}, {1, 0x85}, {1, 0x02}, {2, 0x11, 0x12}, {2, 0xff, 0x00}, {1, 0x01}, {3, 0x03, 0x21, 0x22} };
#define ONE h_CHOICE_decode_oer
#define CHUNK h_CHOICE_decode_oer_chunked
#include "grid_tlv.h"
