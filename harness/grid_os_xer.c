/* bounded stand-in (native grid): XER text of OCTET STRING and BIT STRING (C01, C02, C07), real OCTET_STRING_encode_xer,
 * BIT_STRING_encode_xer and the body converters OCTET_STRING__convert_hexadecimal / _binary, under ASan/UBSan:
 * every length 0..70 (crossing the 16-octet line and the 25-octet scratch boundaries) x 3 content patterns x BASIC and
 * CANONICAL: the text is exactly the hexadecimal (binary) form -- CANONICAL: no whitespace at all; BASIC: after removing
 * whitespace the same digits --, the reported size equals the bytes delivered, and converting the text back gives the
 * contents (and the same number of unused bits). */
#include <stdio.h>
#include <stdlib.h>
#include <string.h>
#include <stdint.h>
#include <asn_internal.h>
#include <OCTET_STRING.h>
#include <BIT_STRING.h>
#include "OCTET_STRING.c"
static unsigned long long evaluated, failed;
static char out[4096]; static size_t out_n;
static int collect(const void *p, size_t n, void *key) { (void)key; if(out_n + n > sizeof(out)) return -1; memcpy(out + out_n, p, n); out_n += n; return 0; }
static void fail(const char *what, size_t n, int canon, int pat) { if(failed++ < 10) printf("VF-GRID: FAIL len=%zu canonical=%d pattern=%d %s\n", n, canon, pat, what); }
static int ws(int c) { return c == 0x09 || c == 0x0a || c == 0x0c || c == 0x0d || c == 0x20; }
int main(void) {
	static unsigned char content[80]; uint64_t x = 88172645463325252ull;
	for(int pat = 0; pat < 3; pat++) for(size_t n = 0; n <= 70; n++) for(int canon = 0; canon < 2; canon++) {
		for(size_t i = 0; i < n; i++) { x ^= x << 13; x ^= x >> 7; x ^= x << 17; content[i] = pat == 0 ? 0x00 : pat == 1 ? 0xFF : (unsigned char)x; }
		/* OCTET STRING: hexadecimal */
		{ OCTET_STRING_t st; memset(&st, 0, sizeof(st)); st.buf = content; st.size = (int)n;
		  out_n = 0; evaluated++;
		  asn_enc_rval_t er = OCTET_STRING_encode_xer(&asn_DEF_OCTET_STRING, &st, 1, canon ? XER_F_CANONICAL : XER_F_BASIC, collect, 0);
		  if(er.encoded < 0) { fail("OCTET_STRING_encode_xer failed", n, canon, pat); continue; }
		  if((size_t)er.encoded != out_n) fail("reported size differs from the bytes delivered", n, canon, pat);
		  char digits[200]; size_t dn = 0; int bad = 0;
		  for(size_t i = 0; i < out_n; i++) { if(ws(out[i])) { if(canon) bad = 1; continue; } digits[dn++] = out[i]; }
		  if(bad) fail("CANONICAL-XER text contains whitespace", n, canon, pat);
		  if(dn != 2 * n) fail("number of hexadecimal digits", n, canon, pat);
		  else for(size_t i = 0; i < n; i++) { static const char *H = "0123456789ABCDEF"; if(digits[2 * i] != H[content[i] >> 4] || digits[2 * i + 1] != H[content[i] & 15]) { fail("hexadecimal digits differ from the contents", n, canon, pat); break; } }
		  OCTET_STRING_t back; memset(&back, 0, sizeof(back)); back.buf = (uint8_t *)calloc(1, 1);
		  ssize_t c = OCTET_STRING__convert_hexadecimal(&back, out, out_n, 1);
		  if(c != (ssize_t)out_n || (size_t)back.size != n || memcmp(back.buf, content, n)) fail("the text does not convert back to the contents", n, canon, pat);
		  free(back.buf); }
		/* BIT STRING: binary, with 0..7 unused bits */
		for(int unused = 0; unused < 8; unused += (n ? 1 : 8)) {
			BIT_STRING_t bs; memset(&bs, 0, sizeof(bs)); unsigned char copy[80]; memcpy(copy, content, n);
			if(n) copy[n - 1] &= (unsigned char)(0xFF << unused);
			bs.buf = copy; bs.size = (int)n; bs.bits_unused = n ? unused : 0;
			out_n = 0; evaluated++;
			asn_enc_rval_t er = BIT_STRING_encode_xer(&asn_DEF_BIT_STRING, &bs, 1, canon ? XER_F_CANONICAL : XER_F_BASIC, collect, 0);
			if(er.encoded < 0) { fail("BIT_STRING_encode_xer failed", n, canon, pat); continue; }
			if((size_t)er.encoded != out_n) fail("BIT STRING: reported size differs from the bytes delivered", n, canon, pat);
			size_t nbits = n ? 8 * n - (size_t)unused : 0, seen = 0; int okb = 1;
			for(size_t i = 0; i < out_n; i++) { if(ws(out[i])) { if(canon) okb = 0; continue; } if(seen < nbits && out[i] != (((copy[seen >> 3] >> (7 - (seen & 7))) & 1) ? '1' : '0')) okb = 0; seen++; }
			if(!okb || seen != nbits) fail("BIT STRING: binary text differs from the bits", n, canon, pat);
			BIT_STRING_t back; memset(&back, 0, sizeof(back)); back.buf = (uint8_t *)calloc(1, 1);
			ssize_t c = OCTET_STRING__convert_binary(&back, out, out_n, 1);
			if(c != (ssize_t)out_n || (size_t)back.size != n || (n && memcmp(back.buf, copy, n)) || back.bits_unused != bs.bits_unused) fail("BIT STRING: the text does not convert back to the bits", n, canon, pat);
			free(back.buf);
		}
	}
	printf("VF-GRID: evaluated %llu failed %llu\n", evaluated, failed); fflush(stdout);
	return failed ? 1 : 0;
}
