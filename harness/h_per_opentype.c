/* UPER open type writer: clean failure and no leak when the output callback refuses data (C14/C07) */
#include <vf.h>
#include <asn_internal.h>
#include <per_opentype.h>
#include <per_encoder.h>
#define VF_CB_CAP 1
#include <vf_cb.h>
#include "asn_bit_data.c"
#include "per_support.c"
#include "per_encoder.c"
#include "per_opentype.c"

static unsigned field_bits; static unsigned char field_val;
static asn_enc_rval_t stub_uper(const asn_TYPE_descriptor_t *td, const asn_per_constraints_t *c, const void *sptr, asn_per_outp_t *po) {
	asn_enc_rval_t er = {0, 0, 0}; (void)c;
	if(per_put_few_bits(po, field_val, (int)field_bits)) ASN__ENCODE_FAILED;
	ASN__ENCODED_OK(er);
}
void h_uper_open_type_put(void) {
	VF_SCALAR(unsigned, nbits); VF_SCALAR(unsigned char, val); VF_SCALAR(long, fail_at); VF_SCALAR(unsigned, pre);
	__CPROVER_assume(nbits <= 8 && fail_at >= -1 && fail_at <= 2 && pre <= 7);
	field_bits = nbits; field_val = val;
	asn_TYPE_operation_t op; memset(&op, 0, sizeof(op)); op.uper_encoder = stub_uper;
	asn_TYPE_descriptor_t td; memset(&td, 0, sizeof(td)); td.name = "T"; td.op = &op;
	asn_per_outp_t po; memset(&po, 0, sizeof(po)); po.buffer = po.tmpspace; po.nbits = 8 * sizeof(po.tmpspace); po.output = vf_cb; int key = 0; po.op_key = &key;
	/* fill the scratch space so that the open type crosses a flush boundary and the callback gets a chance to fail */
	po.buffer = po.tmpspace + 31; po.nbits = 8; po.nboff = pre;
	vf_cb_fail_at = fail_at;
	int v = 0;
	int r = uper_open_type_put(&td, 0, &v, &po);
	VF_CANARY();
	__CPROVER_assert(r == 0 || r == -1, "C07: 0 or -1");
	if(vf_cb_failed) __CPROVER_assert(r == -1, "C07: an output failure makes the open type writer fail");
	/* --memory-leak-check: the temporary encoding buffer is released on every path */
}

/* C03: an open type this version does not know is skipped whatever it contains (X.691 10.2: length determinant, then that
 * many octets); the decoder ends right after it. */
#ifndef VF_OTN
#define VF_OTN 5
#endif
void h_uper_open_type_skip(void) {
	VF_BYTES(buf, VF_OTN + 2); VF_SCALAR(unsigned, len); VF_SCALAR(size_t, skip);
	__CPROVER_assume(len <= VF_OTN && skip <= 7);
#ifdef VF_SKIP
	skip = VF_SKIP;         /* compile-time bit offset: one obligation per offset */
#endif
#ifdef VF_LEN
	len = VF_LEN;
#endif
	asn_per_data_t pd; memset(&pd, 0, sizeof(pd));
	unsigned char stream[VF_OTN + 3];
	for(size_t i = 0; i < sizeof(stream); i++) stream[i] = 0;
	/* write `skip` arbitrary bits, then len (8 bits), then the contents buf[1..len] */
	unsigned char src[VF_OTN + 1]; src[0] = (unsigned char)len; for(size_t i = 1; i <= VF_OTN; i++) src[i] = buf[i];
	for(size_t i = 0; i <= VF_OTN; i++) { stream[i] |= (unsigned char)(src[i] >> skip); stream[i + 1] |= (unsigned char)((src[i] << (8 - skip)) & 0xFF & (skip ? 0xFF : 0)); }
	pd.buffer = stream; pd.nboff = skip; pd.nbits = skip + 8 * (1 + (size_t)len) + 3;      /* three more bits follow the open type */
	int r = uper_open_type_skip(0, &pd);
	VF_CANARY();
	__CPROVER_assert(r == 0, "C03: an unknown open type of any length and contents is skipped");
	if(r == 0) __CPROVER_assert(pd.moved == 8 * (1 + (size_t)len), "C03: exactly the length determinant and the contents are consumed");
}

VF_NATIVE_MAIN
