/* Constructed OER decoder state machine (C04, C05, C14): the real SEQUENCE_decode_oer / SEQUENCE_free run over a
 * hand-laid descriptor (data, of the shape asn1c emits: a, b OPTIONAL, c [, ..., d]) whose member type is a harness
 * stub: a 2-octet restartable value (consumes what is there, RC_WMORE until both octets are in, RC_FAIL on 0xFF).
 * What is checked is the container's own logic: presence bitmap, restart context, extension bitmap, open types,
 * ownership of the members and of ctx->ptr. */
#include <vf.h>
#include <asn_internal.h>
#include <constr_SEQUENCE.h>
#include "constr_SEQUENCE_oer.c"

#ifndef VF_EXT
#define VF_EXT 0           /* 0: no extension marker; 1: one extension addition d after the marker */
#endif
#ifndef VF_N
#define VF_N 8
#endif

/* with an extension marker: the extension-addition bitmap (length octet at offset 5, or 7 when b is present) is at most
 * VF_BMAX octets long, which bounds the bit-by-bit loops of phases 3 and 4 */
#ifndef VF_BMAX
#define VF_BMAX 1
#endif
#if VF_EXT == 2
/* fixed frame: extension bit set, b absent, bitmap of 2 bits (length 2, 6 unused bits): these octets are constants, so that
 * the bit count handed to asn_bit_data_new_contiguous is concrete (an allocation of symbolic size exhausts the SAT back end);
 * a, c, the two bitmap bits and everything after them stay arbitrary */
#define VF_EXT_BOUND(b) do { (b)[0] = 0x80; (b)[5] = 2; (b)[6] = 6; } while(0)
#elif VF_EXT
#define VF_EXT_BOUND(b) __CPROVER_assume((b)[5] <= VF_BMAX + 1 && (b)[7] <= VF_BMAX + 1)
#else
#define VF_EXT_BOUND(b) do { } while(0)
#endif

struct sv { uint8_t got; uint8_t v[2]; };
struct T { struct sv a; struct sv *b; struct sv c; struct sv *d; asn_struct_ctx_t _asn_ctx; };

static asn_TYPE_descriptor_t sv_td, T_td;
static asn_TYPE_operation_t sv_op;
static asn_TYPE_member_t T_elems[4];
static asn_SEQUENCE_specifics_t T_specs;

static asn_dec_rval_t sv_oer(const asn_codec_ctx_t *c, const asn_TYPE_descriptor_t *td, const asn_oer_constraints_t *ct, void **sptr, const void *buf, size_t size) {
	asn_dec_rval_t rv; struct sv *s = (struct sv *)*sptr; const uint8_t *p = (const uint8_t *)buf;
	(void)c; (void)td; (void)ct;
	rv.consumed = 0;
	if(!s) { s = (struct sv *)calloc(1, sizeof(*s)); *sptr = s; if(!s) { rv.code = RC_FAIL; return rv; } }
	if(s->got < 1 && size > rv.consumed) { s->v[0] = p[rv.consumed]; s->got = 1; rv.consumed++; }
	if(s->got == 1 && size > rv.consumed) { s->v[1] = p[rv.consumed]; s->got = 2; rv.consumed++; }
	if(s->got < 2) { rv.code = RC_WMORE; return rv; }
	rv.code = (s->v[0] == 0xFF) ? RC_FAIL : RC_OK;
	if(rv.code == RC_FAIL) rv.consumed = 0;
	return rv;
}
static void sv_free(const asn_TYPE_descriptor_t *td, void *p, enum asn_struct_free_method m) {
	(void)td;
	if(!p) return;
	if(m == ASFM_FREE_EVERYTHING) free(p);
	else if(m == ASFM_FREE_UNDERLYING_AND_RESET) memset(p, 0, sizeof(struct sv));
}
static void setup(void) {
	memset(&sv_op, 0, sizeof(sv_op)); sv_op.oer_decoder = sv_oer; sv_op.free_struct = sv_free;
	memset(&sv_td, 0, sizeof(sv_td)); sv_td.name = "SV"; sv_td.op = &sv_op;
	memset(T_elems, 0, sizeof(T_elems));
	T_elems[0].memb_offset = offsetof(struct T, a); T_elems[0].type = &sv_td; T_elems[0].name = "a";
	T_elems[1].flags = ATF_POINTER; T_elems[1].optional = 1; T_elems[1].memb_offset = offsetof(struct T, b); T_elems[1].type = &sv_td; T_elems[1].name = "b";
	T_elems[2].memb_offset = offsetof(struct T, c); T_elems[2].type = &sv_td; T_elems[2].name = "c";
	T_elems[3].flags = ATF_POINTER; T_elems[3].optional = 1; T_elems[3].memb_offset = offsetof(struct T, d); T_elems[3].type = &sv_td; T_elems[3].name = "d";
	memset(&T_specs, 0, sizeof(T_specs)); T_specs.struct_size = sizeof(struct T); T_specs.ctx_offset = offsetof(struct T, _asn_ctx);
	T_specs.roms_count = 1; T_specs.first_extension = VF_EXT ? 3 : -1;
	memset(&T_td, 0, sizeof(T_td)); T_td.name = "T"; T_td.elements = T_elems; T_td.elements_count = VF_EXT ? 4 : 3; T_td.specifics = &T_specs;
}
static int sv_eq(const struct sv *x, const struct sv *y) {
	if(!x || !y) return x == y;
	return x->got == y->got && (x->got < 1 || x->v[0] == y->v[0]) && (x->got < 2 || x->v[1] == y->v[1]);
}
static int T_eq(const struct T *x, const struct T *y) {
	return sv_eq(&x->a, &y->a) && sv_eq(x->b, y->b) && sv_eq(&x->c, &y->c) && sv_eq(x->d, y->d);
}


#if VF_EXT
/* independent reading of a complete encoding of T with additions (X.696 16): preamble, a, [b], c, then -- if the extension
 * bit is set -- the bitmap field (length, unused bits, bitmap) and one open type per set bit.  Bit 0 is d (2 octets in this
 * harness), every other bit is an addition this version does not know: skipped whatever it contains. */
struct expect_ext { size_t total; int has_d; uint8_t d0, d1; };
static int spec_valid_ext(const uint8_t *p, size_t n, struct expect_ext *e) {
	size_t i = 1, nb, j;
	e->has_d = 0;
	if(n < 1) return 0;
	if(i + 2 > n || p[i] == 0xFF) return 0; i += 2;                       /* a */
	if(p[0] & 0x40) { if(i + 2 > n || p[i] == 0xFF) return 0; i += 2; }  /* b */
	if(i + 2 > n || p[i] == 0xFF) return 0; i += 2;                       /* c */
	if(p[0] & 0x80) {
		size_t L, bm;
		if(i >= n || p[i] == 0 || p[i] >= 0x80) return 0;
		L = p[i]; if(i + 1 + L > n) return 0;
		if(L == 1 && (p[i + 1] & 7)) return 0;
		nb = (L - 1) * 8; if(nb < (size_t)(p[i + 1] & 7)) return 0; nb -= (size_t)(p[i + 1] & 7);
		bm = i + 2; i += 1 + L;
		for(j = 0; j < nb; j++) if(p[bm + (j >> 3)] & (0x80 >> (j & 7))) {
			size_t l;
			if(i >= n || p[i] >= 0x80) return 0;
			l = p[i]; if(i + 1 + l > n) return 0;
			if(j == 0) { if(l != 2 || p[i + 1] == 0xFF) return 0; e->has_d = 1; e->d0 = p[i + 1]; e->d1 = p[i + 2]; }
			i += 1 + l;
		}
	}
	e->total = i;
	return 1;
}
#endif

/* one-shot decode of arbitrary bytes, then free: report consistency, memory safety, no leak, no double free */
void h_SEQUENCE_decode_oer(void) {
	VF_BYTES(buf, VF_N); VF_SCALAR(size_t, size);
	__CPROVER_assume(size <= VF_N);
#ifdef VF_SIZE
	size = VF_SIZE;        /* one obligation per input length: an exact-size heap buffer of symbolic size exhausts the SAT back end */
#endif
	VF_EXT_BOUND(buf);
	setup();
	unsigned char *in = (unsigned char *)malloc(size); __CPROVER_assume(in != 0);
	for(size_t i = 0; i < VF_N; i++) if(i < size) in[i] = buf[i];
	void *st = 0;
	asn_dec_rval_t rv = SEQUENCE_decode_oer(0, &T_td, 0, &st, in, size);
	VF_CANARY();
	__CPROVER_assert(rv.code == RC_OK || rv.code == RC_WMORE || rv.code == RC_FAIL, "C04: return code is RC_OK, RC_WMORE or RC_FAIL");
	__CPROVER_assert(rv.consumed <= size, "C04: consumed <= size");
	if(rv.code == RC_OK) {
		struct T *t = (struct T *)st;
		__CPROVER_assert(t && t->a.got == 2 && t->c.got == 2 && (!t->b || t->b->got == 2), "C01: RC_OK means every mandatory member was decoded completely");
		__CPROVER_assert((t->b != 0) == ((in[0] & (VF_EXT ? 0x40 : 0x80)) != 0), "C02/C03: member b is present exactly when its presence bit is set");
	}
	SEQUENCE_free(&T_td, st, ASFM_FREE_EVERYTHING);     /* with --memory-leak-check: everything is released exactly once */
	free(in);
}

/* two-chunk decode equals one-shot decode (the caller re-presents what was not consumed) */
void h_SEQUENCE_decode_oer_chunked(void) {
	VF_BYTES(buf, VF_N); VF_SCALAR(size_t, size); VF_SCALAR(size_t, k);
	__CPROVER_assume(size <= VF_N && k <= size);
	VF_EXT_BOUND(buf);
	setup();
	void *st1 = 0, *st2 = 0;
	asn_dec_rval_t one = SEQUENCE_decode_oer(0, &T_td, 0, &st1, buf, size);
	asn_dec_rval_t r1 = SEQUENCE_decode_oer(0, &T_td, 0, &st2, buf, k);
	VF_CANARY();
#if VF_EXT
	{ struct expect_ext e;
	  if(spec_valid_ext(buf, size, &e)) {
		struct T *t = (struct T *)st1;
		__CPROVER_assert(one.code == RC_OK && one.consumed == e.total, "C03: a valid encoding with known and unknown additions is accepted with its full length consumed");
		if(one.code == RC_OK) __CPROVER_assert((t->d != 0) == e.has_d && (!t->d || (t->d->v[0] == e.d0 && t->d->v[1] == e.d1)), "C03: the known addition d is decoded when its bit is set, unknown ones are skipped");
	  } }
#endif
	__CPROVER_assert(r1.consumed <= k, "C05: consumed does not exceed the chunk");
	if(one.code == RC_OK && k < one.consumed)
		__CPROVER_assert(r1.code == RC_WMORE, "C05: a proper prefix of a valid encoding yields RC_WMORE");
	if(r1.code == RC_WMORE) {
		asn_dec_rval_t r2 = SEQUENCE_decode_oer(0, &T_td, 0, &st2, buf + r1.consumed, size - r1.consumed);
		__CPROVER_assert(r2.code == one.code, "C05: chunked decoding ends with the same return code as one-shot decoding");
		if(one.code != RC_FAIL) {
			__CPROVER_assert(r1.consumed + r2.consumed == one.consumed, "C05: chunked decoding consumes the same total");
			__CPROVER_assert(T_eq((struct T *)st1, (struct T *)st2), "C05: chunked decoding yields the same value");
		}
	} else {
		__CPROVER_assert(r1.code == one.code, "C05: a chunk that decides the outcome decides it as the whole buffer does");
		if(one.code == RC_OK) {
			__CPROVER_assert(r1.consumed == one.consumed, "C05: same consumed count");
			__CPROVER_assert(T_eq((struct T *)st1, (struct T *)st2), "C05: same value");
		}
	}
	SEQUENCE_free(&T_td, st1, ASFM_FREE_EVERYTHING); SEQUENCE_free(&T_td, st2, ASFM_FREE_EVERYTHING);
}

/* C14: ASN_STRUCT_RESET after any outcome leaves an all-zero structure, and decoding into it again behaves exactly as
 * decoding into a fresh one (evaluated by the native grids) */
void h_SEQUENCE_decode_oer_reset(void) {
	VF_BYTES(buf, VF_N); VF_SCALAR(size_t, size);
	__CPROVER_assume(size <= VF_N);
	VF_EXT_BOUND(buf);
	setup();
	void *st = 0, *fresh = 0;
	asn_dec_rval_t r0 = SEQUENCE_decode_oer(0, &T_td, 0, &st, buf, size);
	void *st_saved = st; st = 0;
	asn_dec_rval_t rf = SEQUENCE_decode_oer(0, &T_td, 0, &st, buf, size); fresh = st; st = st_saved;
	VF_CANARY();
	if(st) {
		SEQUENCE_free(&T_td, st, ASFM_FREE_UNDERLYING_AND_RESET);
		int zero = 1; for(size_t i = 0; i < sizeof(struct T); i++) if(((unsigned char *)st)[i]) zero = 0;
		__CPROVER_assert(zero, "C14: ASN_STRUCT_RESET leaves a zeroed structure");
		asn_dec_rval_t r1 = SEQUENCE_decode_oer(0, &T_td, 0, &st, buf, size);
		__CPROVER_assert(r1.code == rf.code && r1.consumed == rf.consumed, "C14: decoding into a reset structure reports what decoding into a fresh one reports");
		if(rf.code == RC_OK) __CPROVER_assert(T_eq((struct T *)st, (struct T *)fresh), "C14: and yields the same value");
	}
	(void)r0;
	SEQUENCE_free(&T_td, st, ASFM_FREE_EVERYTHING); SEQUENCE_free(&T_td, fresh, ASFM_FREE_EVERYTHING);
}

VF_NATIVE_MAIN
