/* ENUMERATED (native) over UPER, X.691 clause 14: root values by index, extension values as normally small numbers */
#include <vf.h>
#include <asn_internal.h>
#include <NativeEnumerated.h>
#define VF_CB_CAP 8
#include <vf_cb.h>
#include "asn_bit_data.c"
#include "per_support.c"
#include "NativeEnumerated.c"

static const asn_INTEGER_enum_map_t v2e[4] = { {0, 1, "a"}, {1, 1, "b"}, {5, 1, "c"}, {100, 1, "d"} };
static const unsigned e2v[4] = { 0, 1, 2, 3 };
static unsigned bit_at(const unsigned char *p, size_t q) { return (p[q >> 3] >> (7 - (q & 7))) & 1u; }
static unsigned long field(size_t pos, int n) { unsigned long v = 0; int i; for(i = 0; i < 16; i++) if(i < n) v = (v << 1) | bit_at(vf_cb_log, pos + i); return v; }

void h_NativeEnumerated_uper(void) {
	VF_SCALAR(long, v); VF_SCALAR(int, extensible);
	/* ENUMERATED { a(0), b(1), ..., c(5), d(100) } when extensible, else all four in the root */
	asn_INTEGER_specifics_t specs; memset(&specs, 0, sizeof(specs));
	specs.value2enum = v2e; specs.enum2value = e2v; specs.map_count = 4; specs.extension = extensible ? 3 : 0; specs.strict_enumeration = 1;
	asn_per_constraints_t ct; memset(&ct, 0, sizeof(ct));
	ct.value.flags = APC_CONSTRAINED | (extensible ? APC_EXTENSIBLE : 0);
	ct.value.range_bits = extensible ? 1 : 2; ct.value.effective_bits = ct.value.range_bits; ct.value.lower_bound = 0; ct.value.upper_bound = extensible ? 1 : 3;
	asn_TYPE_descriptor_t td; memset(&td, 0, sizeof(td)); td.name = "E"; td.specifics = &specs;
	asn_per_outp_t po; memset(&po, 0, sizeof(po)); po.buffer = po.tmpspace; po.nbits = 8 * sizeof(po.tmpspace); po.output = vf_cb; int key = 0; po.op_key = &key;
	asn_enc_rval_t er = NativeEnumerated_encode_uper(&td, &ct, &v, &po);
	int fl = asn_put_aligned_flush(&po);
	VF_CANARY();
	int idx = v == 0 ? 0 : v == 1 ? 1 : v == 5 ? 2 : v == 100 ? 3 : -1;
	if(idx < 0) { __CPROVER_assert(er.encoded == -1, "C07/C08: a value that is not in the enumeration cannot be encoded"); return; }
	__CPROVER_assert(er.encoded == 0 && fl == 0, "C07: encodes");
	if(!extensible) __CPROVER_assert(field(0, 2) == (unsigned long)idx && vf_cb_bytes == 1, "X.691 14.2: index of the value among the root enumerations, in the bits needed for their count");
	else if(idx < 2) __CPROVER_assert(field(0, 1) == 0 && field(1, 1) == (unsigned long)idx, "X.691 14.3: extension bit 0, then the root index");
	else __CPROVER_assert(field(0, 1) == 1 && field(1, 7) == (unsigned long)(idx - 2), "X.691 14.3: extension bit 1, then the index among the additions as a normally small number");
	asn_per_data_t pd; memset(&pd, 0, sizeof(pd)); pd.buffer = vf_cb_log; pd.nbits = 8 * vf_cb_bytes;
	long *back = 0;
	asn_dec_rval_t rv = NativeEnumerated_decode_uper(0, &td, &ct, (void **)&back, &pd);
	if(back) { __CPROVER_assert(rv.code == RC_OK && *back == v, "C01: decode(encode(v)) == v"); free(back); }
}

VF_NATIVE_MAIN
