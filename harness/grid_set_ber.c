/* bounded stand-in (native grid): SET over BER with longer inputs than SET_decode_ber.b8 / .chunk2 (CBMC) reach: assertions of
 * harness/h_set_ber.c on 5 outer length forms x every sequence of at most 4 TLV templates (the three components in every order,
 * duplicates, a foreign tag, a wrong length, end-of-contents) x every truncation x every split point. */
#define VF_GRID 1
#define VF_N 24
#include "h_set_ber.c"
#define VF_TLVS 4
#define NT 7
#define NFORMS 5
#define OUTER 0x31
static const unsigned char TPL[NT][6] = { {3, 0x80, 1, 0x11}, {3, 0x81, 1, 0x12}, {3, 0x82, 1, 0x13}, {3, 0x85, 1, 0x15}, {4, 0x82, 2, 0x13, 0x14}, {2, 0x00, 0x00}, {3, 0x80, 1, 0x21} };
#define ONE h_SET_decode_ber
#define CHUNK h_SET_decode_ber_chunked
#include "grid_tlv.h"
