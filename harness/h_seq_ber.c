/* SEQUENCE over BER (C03, C04, C05, C14): the real SEQUENCE_decode_ber (with the real ber_check_tags, ber_fetch_tag,
 * ber_fetch_length, ber_skip_length, _t2e_cmp) and SEQUENCE_free run over hand-laid descriptors of the shape asn1c emits.
 * Member types are harness stubs: a primitive TLV with the expected tag and one contents octet, decoded statelessly
 * (RC_WMORE with consumed = 0 until the TLV is complete, like the real primitive decoders).
 *   VF_V=0   T ::= SEQUENCE { a [0] SV OPTIONAL, b CHOICE { [1] SV, [3] SV } OPTIONAL, c [2] SV }      (b untagged: tag2el/bsearch path)
 *   VF_V=1   T ::= SEQUENCE { a [0] SV OPTIONAL, c [2] SV, ..., b CHOICE { [1] SV, [3] SV } OPTIONAL }  (unknown additions are skipped)
 *   VF_V=2   T ::= SEQUENCE { c [2] SV, a [0] SV OPTIONAL, ..., b CHOICE { [1] SV, [3] SV } OPTIONAL }  (the root ends with an OPTIONAL member)
 */
#include <vf.h>
#include <asn_internal.h>
#include <constr_SEQUENCE.h>
#include "constr_SEQUENCE.c"

#ifndef VF_V
#define VF_V 0
#endif
#ifndef VF_N
#define VF_N 11
#endif

struct sv { uint8_t got; uint8_t tag; uint8_t v; };
struct T { struct sv *a; struct sv *b; struct sv c; asn_struct_ctx_t _asn_ctx; };

#define CTX(n) ((ber_tlv_tag_t)((n) << 2) | ASN_TAG_CLASS_CONTEXT)
static asn_TYPE_descriptor_t svA_td, svB_td, svC_td, T_td;
static asn_TYPE_operation_t sv_op;
static asn_TYPE_member_t T_elems[3];
static asn_SEQUENCE_specifics_t T_specs;
static const ber_tlv_tag_t T_tags[1] = { (ber_tlv_tag_t)(16 << 2) | ASN_TAG_CLASS_UNIVERSAL };
static asn_TYPE_tag2member_t T_tag2el[4];

static asn_dec_rval_t sv_ber(const asn_codec_ctx_t *c, const asn_TYPE_descriptor_t *td, void **sptr, const void *buf, size_t size, int tag_mode) {
	asn_dec_rval_t rv; struct sv *s = (struct sv *)*sptr; const uint8_t *p = (const uint8_t *)buf;
	(void)c; (void)tag_mode;
	rv.consumed = 0;
	if(!s) { s = (struct sv *)calloc(1, sizeof(*s)); *sptr = s; if(!s) { rv.code = RC_FAIL; return rv; } }
	if(size < 1) { rv.code = RC_WMORE; return rv; }
	if(td == &svA_td ? p[0] != 0x80 : td == &svC_td ? p[0] != 0x82 : (p[0] != 0x81 && p[0] != 0x83)) { rv.code = RC_FAIL; return rv; }
	if(size < 2) { rv.code = RC_WMORE; return rv; }
	if(p[1] != 1) { rv.code = RC_FAIL; return rv; }
	if(size < 3) { rv.code = RC_WMORE; return rv; }
	s->tag = p[0]; s->v = p[2]; s->got = 1;
	rv.code = RC_OK; rv.consumed = 3;
	return rv;
}
static void sv_free(const asn_TYPE_descriptor_t *td, void *p, enum asn_struct_free_method m) {
	(void)td;
	if(!p) return;
	if(m == ASFM_FREE_EVERYTHING) free(p);
	else if(m == ASFM_FREE_UNDERLYING_AND_RESET) memset(p, 0, sizeof(struct sv));
}
static void member(asn_TYPE_member_t *e, enum asn_TYPE_flags_e flags, unsigned optional, unsigned off, ber_tlv_tag_t tag, asn_TYPE_descriptor_t *type, const char *name) {
	memset(e, 0, sizeof(*e)); e->flags = flags; e->optional = optional; e->memb_offset = off; e->tag = tag; e->type = type; e->name = name;
}
static void t2e(asn_TYPE_tag2member_t *t, ber_tlv_tag_t tag, unsigned el) { t->el_tag = tag; t->el_no = el; t->toff_first = 0; t->toff_last = 0; }
static void setup(void) {
	memset(&sv_op, 0, sizeof(sv_op)); sv_op.ber_decoder = sv_ber; sv_op.free_struct = sv_free;
	memset(&svA_td, 0, sizeof(svA_td)); svA_td.name = "A"; svA_td.op = &sv_op;
	svB_td = svA_td; svB_td.name = "B"; svC_td = svA_td; svC_td.name = "C";
#if VF_V == 0
	member(&T_elems[0], ATF_POINTER, 2, offsetof(struct T, a), CTX(0), &svA_td, "a");
	member(&T_elems[1], ATF_POINTER, 1, offsetof(struct T, b), (ber_tlv_tag_t)-1, &svB_td, "b");
	member(&T_elems[2], ATF_NOFLAGS, 0, offsetof(struct T, c), CTX(2), &svC_td, "c");
	t2e(&T_tag2el[0], CTX(0), 0); t2e(&T_tag2el[1], CTX(1), 1); t2e(&T_tag2el[2], CTX(2), 2); t2e(&T_tag2el[3], CTX(3), 1);
#elif VF_V == 1
	member(&T_elems[0], ATF_POINTER, 1, offsetof(struct T, a), CTX(0), &svA_td, "a");
	member(&T_elems[1], ATF_NOFLAGS, 0, offsetof(struct T, c), CTX(2), &svC_td, "c");
	member(&T_elems[2], ATF_POINTER, 1, offsetof(struct T, b), (ber_tlv_tag_t)-1, &svB_td, "b");
	t2e(&T_tag2el[0], CTX(0), 0); t2e(&T_tag2el[1], CTX(1), 2); t2e(&T_tag2el[2], CTX(2), 1); t2e(&T_tag2el[3], CTX(3), 2);
#else   /* VF_V == 2: T ::= SEQUENCE { c [2] SV, a [0] SV OPTIONAL, ..., b CHOICE OPTIONAL }: the root ends with an OPTIONAL member */
	member(&T_elems[0], ATF_NOFLAGS, 0, offsetof(struct T, c), CTX(2), &svC_td, "c");
	member(&T_elems[1], ATF_POINTER, 2, offsetof(struct T, a), CTX(0), &svA_td, "a");
	member(&T_elems[2], ATF_POINTER, 1, offsetof(struct T, b), (ber_tlv_tag_t)-1, &svB_td, "b");
	t2e(&T_tag2el[0], CTX(0), 1); t2e(&T_tag2el[1], CTX(1), 2); t2e(&T_tag2el[2], CTX(2), 0); t2e(&T_tag2el[3], CTX(3), 2);
#endif
	memset(&T_specs, 0, sizeof(T_specs)); T_specs.struct_size = sizeof(struct T); T_specs.ctx_offset = offsetof(struct T, _asn_ctx);
	T_specs.tag2el = T_tag2el; T_specs.tag2el_count = 4; T_specs.first_extension = VF_V ? 2 : -1;
	memset(&T_td, 0, sizeof(T_td)); T_td.name = "T"; T_td.tags = T_tags; T_td.tags_count = 1; T_td.all_tags = T_tags; T_td.all_tags_count = 1;
	T_td.elements = T_elems; T_td.elements_count = 3; T_td.specifics = &T_specs;
}

/* independent reading of the encoding: definite short-form outer length, members in order, each a 3-octet primitive TLV */
struct expect { int has_a, has_b; uint8_t a, b, btag, c; size_t total; };
static int spec_valid(const uint8_t *p, size_t n, struct expect *e) {
	size_t i = 2, end;
	e->has_a = e->has_b = 0;
	if(n < 2 || p[0] != 0x30 || p[1] >= 0x80) return 0;
	end = 2 + (size_t)p[1];
	if(end > n) return 0;
	e->total = end;
#define IS(tag) (i + 3 <= end && p[i] == (tag) && p[i + 1] == 1)
	if(IS(0x80)) { e->has_a = 1; e->a = p[i + 2]; i += 3; }
#if VF_V == 0
	if(IS(0x81) || IS(0x83)) { e->has_b = 1; e->btag = p[i]; e->b = p[i + 2]; i += 3; }
	if(!IS(0x82)) return 0;
	e->c = p[i + 2]; i += 3;
#else
#if VF_V == 2
	if(e->has_a) return 0;                    /* variant 2: c comes first, then a */
	if(!IS(0x82)) return 0;
	e->c = p[i + 2]; i += 3;
	if(IS(0x80)) { e->has_a = 1; e->a = p[i + 2]; i += 3; }
#else
	if(!IS(0x82)) return 0;
	e->c = p[i + 2]; i += 3;
#endif
	if(IS(0x81) || IS(0x83)) { e->has_b = 1; e->btag = p[i]; e->b = p[i + 2]; i += 3; }
	if(IS(0x85)) i += 3;                      /* an addition of a later version, unknown here (they follow the known ones) */
	if(IS(0x86)) i += 3;                      /* another one */
#endif
	return i == end;
}
static int sv_eq(const struct sv *x, const struct sv *y) {
	if(!x || !y) return x == y;
	return x->got == y->got && (!x->got || (x->tag == y->tag && x->v == y->v));
}
static int T_eq(const struct T *x, const struct T *y) { return sv_eq(x->a, y->a) && sv_eq(x->b, y->b) && sv_eq(&x->c, &y->c); }

#if VF_V && !defined(VF_GRID)
/* bound (CBMC only; the native grid includes constructed ones): unknown additions are primitive, so ber_skip_length does not recurse (no octet after the outer tag has bit 6 set) */
#define VF_PRIM_ONLY(b) do { for(size_t j = 1; j < VF_N; j++) __CPROVER_assume(((b)[j] & 0x20) == 0); } while(0)
#else
#define VF_PRIM_ONLY(b) do { } while(0)
#endif

void h_SEQUENCE_decode_ber(void) {
	VF_BYTES(buf, VF_N); VF_SCALAR(size_t, size);
	__CPROVER_assume(size <= VF_N);
#ifdef VF_SIZE
	size = VF_SIZE;        /* one obligation per input length: an exact-size heap buffer of symbolic size exhausts the SAT back end */
#endif
	VF_PRIM_ONLY(buf);
	setup();
	unsigned char *in = (unsigned char *)malloc(size); __CPROVER_assume(in != 0);
	for(size_t i = 0; i < VF_N; i++) if(i < size) in[i] = buf[i];
	void *st = 0;
	asn_dec_rval_t rv = SEQUENCE_decode_ber(0, &T_td, &st, in, size, 0);
	VF_CANARY();
	__CPROVER_assert(rv.code == RC_OK || rv.code == RC_WMORE || rv.code == RC_FAIL, "C04: return code is RC_OK, RC_WMORE or RC_FAIL");
	__CPROVER_assert(rv.consumed <= size, "C04: consumed <= size");
	SEQUENCE_free(&T_td, st, ASFM_FREE_EVERYTHING);
	free(in);
}

void h_SEQUENCE_decode_ber_chunked(void) {
	VF_BYTES(buf, VF_N); VF_SCALAR(size_t, size); VF_SCALAR(size_t, k);
	__CPROVER_assume(size <= VF_N && k <= size);
	VF_PRIM_ONLY(buf);
	setup();
	void *st1 = 0, *st2 = 0;
	asn_dec_rval_t one = SEQUENCE_decode_ber(0, &T_td, &st1, buf, size, 0);
	asn_dec_rval_t r1 = SEQUENCE_decode_ber(0, &T_td, &st2, buf, k, 0);
	VF_CANARY();
	/* C03 is stated here because this entry runs without allocation failures */
	struct expect e;
	if(spec_valid(buf, size, &e)) {
		struct T *t = (struct T *)st1;
		__CPROVER_assert(one.code == RC_OK && one.consumed == e.total, "C03: a valid encoding is accepted with its full length consumed");
		if(one.code == RC_OK) {
			__CPROVER_assert((t->a != 0) == e.has_a && (!t->a || t->a->v == e.a), "C03: member a");
			__CPROVER_assert((t->b != 0) == e.has_b && (!t->b || (t->b->v == e.b && t->b->tag == e.btag)), "C03: member b");
			__CPROVER_assert(t->c.got && t->c.v == e.c, "C03: member c");
		}
	}
	__CPROVER_assert(r1.consumed <= k, "C05: consumed does not exceed the chunk");
	if(one.code == RC_OK && k < one.consumed)
		__CPROVER_assert(r1.code == RC_WMORE, "C05: a proper prefix of a valid encoding yields RC_WMORE");
	if(r1.code == RC_WMORE) {
		asn_dec_rval_t r2 = SEQUENCE_decode_ber(0, &T_td, &st2, buf + r1.consumed, size - r1.consumed, 0);
		__CPROVER_assert(r2.code == one.code, "C05: chunked decoding ends with the same return code as one-shot decoding");
		if(one.code != RC_FAIL) {
			__CPROVER_assert(r1.consumed + r2.consumed == one.consumed, "C05: chunked decoding consumes the same total");
			if(one.code == RC_OK) __CPROVER_assert(T_eq((struct T *)st1, (struct T *)st2), "C05: chunked decoding yields the same value");
		}
	} else {
		__CPROVER_assert(r1.code == one.code, "C05: a chunk that decides the outcome decides it as the whole buffer does");
		if(one.code == RC_OK) {
			__CPROVER_assert(r1.consumed == one.consumed, "C05: same consumed count");
			__CPROVER_assert(T_eq((struct T *)st1, (struct T *)st2), "C05: same value");
		}
	}
	SEQUENCE_free(&T_td, st1, ASFM_FREE_EVERYTHING); SEQUENCE_free(&T_td, st2, ASFM_FREE_EVERYTHING);
}

/* C14: ASN_STRUCT_RESET after any outcome leaves an all-zero structure, and decoding into it again behaves exactly as
 * decoding into a fresh one (evaluated by the native grids) */
void h_SEQUENCE_decode_ber_reset(void) {
	VF_BYTES(buf, VF_N); VF_SCALAR(size_t, size);
	__CPROVER_assume(size <= VF_N);
	setup();
	void *st = 0, *fresh = 0;
	asn_dec_rval_t r0 = SEQUENCE_decode_ber(0, &T_td, &st, buf, size, 0);
	void *st_saved = st; st = 0;
	asn_dec_rval_t rf = SEQUENCE_decode_ber(0, &T_td, &st, buf, size, 0); fresh = st; st = st_saved;
	VF_CANARY();
	if(st) {
		SEQUENCE_free(&T_td, st, ASFM_FREE_UNDERLYING_AND_RESET);
		int zero = 1; for(size_t i = 0; i < sizeof(struct T); i++) if(((unsigned char *)st)[i]) zero = 0;
		__CPROVER_assert(zero, "C14: ASN_STRUCT_RESET leaves a zeroed structure");
		asn_dec_rval_t r1 = SEQUENCE_decode_ber(0, &T_td, &st, buf, size, 0);
		__CPROVER_assert(r1.code == rf.code && r1.consumed == rf.consumed, "C14: decoding into a reset structure reports what decoding into a fresh one reports");
		if(rf.code == RC_OK) __CPROVER_assert(T_eq((struct T *)st, (struct T *)fresh), "C14: and yields the same value");
	}
	(void)r0;
	SEQUENCE_free(&T_td, st, ASFM_FREE_EVERYTHING); SEQUENCE_free(&T_td, fresh, ASFM_FREE_EVERYTHING);
}

VF_NATIVE_MAIN
