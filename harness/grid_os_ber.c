/* bounded stand-in (native grid): OCTET STRING / BIT STRING over BER incl. constructed reassembly and its restart machine,
 * which CBMC does not get through (2 h time-out for 7 octets).  Assertions of harness/h_octet_string_ber.c (C03 primitive form,
 * C04 consumed <= size / termination, C05 two-chunk split against one-shot, C14 free) evaluated natively under
 * ASan/UBSan/LSan (the input sits in a 24-octet array: an over-read inside that array is only seen through consumed > size):
 *  (1) every byte string of length <= 2, and every 3-octet string whose first octet is one of 12 identifier octets;
 *  (2) outer header (primitive / constructed, definite / indefinite, for both types) x every sequence of at most 3 segment
 *      templates (primitive segments of 0..2 octets, a nested constructed segment, end-of-contents, a foreign tag);
 *  every truncation and every split point. */
#define VF_GRID 1
#define VF_NB 24
#include "h_octet_string_ber.c"

static unsigned char in_buf[VF_NB]; static size_t in_len;
static void run(size_t size, size_t k, int bits) {
	vf_grid_n = 0;
	vf_grid_tab[vf_grid_n++] = (struct vf_grid_in){ "buf", 0, in_buf, VF_NB };
	vf_grid_tab[vf_grid_n++] = (struct vf_grid_in){ "size", size, 0, 0 };
	vf_grid_tab[vf_grid_n++] = (struct vf_grid_in){ "k", k, 0, 0 };
	vf_grid_tab[vf_grid_n++] = (struct vf_grid_in){ "bits", (unsigned)bits, 0, 0 };
	if(k == 0) VF_GRID_RUN(h_OCTET_STRING_decode_ber);
	VF_GRID_RUN(h_OCTET_STRING_decode_ber_chunked);
}
static void all_cuts(int bits) { for(size_t size = 0; size <= in_len; size++) for(size_t k = 0; k <= size; k++) run(size, k, bits); }
static void put(const unsigned char *p, size_t n) { for(size_t i = 0; i < n && in_len < VF_NB; i++) in_buf[in_len++] = p[i]; }
#define NT 8
static const unsigned char SEG[2][NT][8] = {
  { {2, 0x04, 0}, {3, 0x04, 1, 0x41}, {4, 0x04, 2, 0x42, 0x43}, {6, 0x24, 4, 0x04, 2, 0x44, 0x45}, {7, 0x24, 0x80, 0x04, 1, 0x46, 0, 0}, {2, 0, 0}, {3, 0x02, 1, 5}, {3, 0x04, 0x81, 0} },
  { {2, 0x03, 0}, {3, 0x03, 1, 0x00}, {4, 0x03, 2, 0x03, 0x58}, {6, 0x23, 4, 0x03, 2, 0x00, 0x45}, {7, 0x23, 0x80, 0x03, 1, 0x00, 0, 0}, {2, 0, 0}, {3, 0x02, 1, 5}, {4, 0x03, 2, 0x09, 0x58} } };
int main(void) {
	static const unsigned char first[12] = { 0x03, 0x04, 0x23, 0x24, 0x00, 0xff, 0x1f, 0x30, 0x83, 0xa4, 0x3f, 0x02 };
	for(int bits = 0; bits < 2; bits++) {
		for(unsigned a = 0; a < 256; a++) { in_len = 1; memset(in_buf, 0, VF_NB); in_buf[0] = (unsigned char)a; all_cuts(bits);
			for(unsigned b = 0; b < 256; b++) { in_len = 2; in_buf[1] = (unsigned char)b; all_cuts(bits); } }
		for(int f = 0; f < 12; f++) for(unsigned b = 0; b < 256; b++) for(unsigned c = 0; c < 256; c++) { memset(in_buf, 0, VF_NB); in_buf[0] = first[f]; in_buf[1] = (unsigned char)b; in_buf[2] = (unsigned char)c; in_len = 3; all_cuts(bits); }
		int idx[3];
		for(int cnt = 0; cnt <= 3; cnt++) { long total = 1; for(int i = 0; i < cnt; i++) total *= NT;
			for(long code = 0; code < total; code++) { long c = code; size_t body = 0;
				for(int i = 0; i < cnt; i++) { idx[i] = (int)(c % NT); c /= NT; body += SEG[bits][idx[i]][0]; }
				for(int form = 0; form < 4; form++) {
					memset(in_buf, 0, VF_NB); in_len = 0;
					unsigned char h[2]; h[0] = (unsigned char)((bits ? 0x03 : 0x04) | (form >= 1 ? 0x20 : 0)); h[1] = (unsigned char)(form == 3 ? 0x80 : form == 2 ? body + 1 : body);
					put(h, 2);
					for(int i = 0; i < cnt; i++) put(SEG[bits][idx[i]] + 1, SEG[bits][idx[i]][0]);
					if(form == 3) put((const unsigned char *)"\0\0", 2);
					all_cuts(bits);
				} } }
	}
	return VF_GRID_SUMMARY();
}
