/* OCTET STRING family over OER (X.696 clause 14/27.2): fixed-size strings have no length determinant */
#include <vf.h>
#include <asn_internal.h>
#include <OCTET_STRING.h>
#define VF_CB_CAP 12
#include <vf_cb.h>
#include <vf_alloc.h>
#include "oer_support.c"
#include "OCTET_STRING_oer.c"
/* the default specifics of OCTET_STRING.c (that unit is not part of this harness) */
asn_OCTET_STRING_specifics_t asn_SPC_OCTET_STRING_specs = { sizeof(OCTET_STRING_t), offsetof(OCTET_STRING_t, _asn_ctx), ASN_OSUBV_STR };

static asn_OCTET_STRING_specifics_t specs;
static asn_TYPE_descriptor_t td;
static void mk(int sub) { specs.struct_size = sizeof(OCTET_STRING_t); specs.ctx_offset = offsetof(OCTET_STRING_t, _asn_ctx); specs.subvariant = (enum asn_OS_Subvariant)sub;
	memset(&td, 0, sizeof(td)); td.name = "S"; td.specifics = &specs; }

void h_OCTET_STRING_oer_roundtrip(void) {
	VF_BYTES(content, 8); VF_SCALAR(size_t, n); VF_SCALAR(int, sub); VF_SCALAR(long, ct_size); VF_SCALAR(long, fail_at);
	__CPROVER_assume(n <= 8 && sub >= 0 && sub <= 4 && ct_size >= -1 && ct_size <= 8 && fail_at >= -1 && fail_at <= 2);
	mk(sub);
	OCTET_STRING_t st; memset(&st, 0, sizeof(st)); st.buf = content; st.size = n;
	asn_oer_constraints_t ct; ct.value.width = 0; ct.value.positive = 0; ct.size = ct_size;
	int key = 0;
	vf_cb_fail_at = fail_at;
	asn_enc_rval_t er = OCTET_STRING_encode_oer(&td, &ct, &st, vf_cb, &key);
	VF_CANARY();
	size_t unit = sub == ASN_OSUBV_U16 ? 2 : sub == ASN_OSUBV_U32 ? 4 : 1;
	if(vf_cb_failed) { __CPROVER_assert(er.encoded == -1, "C07: callback failure gives -1"); return; }
	if(ct_size >= 0 && (sub == ASN_OSUBV_BIT || n != unit * (size_t)ct_size)) { __CPROVER_assert(er.encoded == -1, "C08/C07: a string that violates its fixed SIZE cannot be encoded"); return; }
	size_t hdr = ct_size >= 0 ? 0 : 1;
	__CPROVER_assert(er.encoded == (ssize_t)(hdr + n) && vf_cb_bytes == hdr + n, "C02/C07: fixed size: contents only; otherwise length determinant + contents; size equals bytes delivered");
	if(hdr) __CPROVER_assert(vf_cb_log[0] == n, "C02: X.696 27.2 length in octets");
	void *sptr = 0;
	asn_dec_rval_t rv = OCTET_STRING_decode_oer(0, &td, &ct, &sptr, vf_cb_log, vf_cb_bytes);
	if(sub == ASN_OSUBV_BIT) { __CPROVER_assert(rv.code == RC_FAIL, "BIT STRING has its own codec"); }
	else if(sptr && ((OCTET_STRING_t *)sptr)->buf && (ct_size >= 0 || n % unit == 0)) {
		OCTET_STRING_t *o = (OCTET_STRING_t *)sptr; size_t i; int same = 1;
		__CPROVER_assert(rv.code == RC_OK && rv.consumed == vf_cb_bytes && o->size == n && o->buf[n] == 0, "C01: decode(encode(v)) consumes everything, same length, NUL terminated");
		for(i = 0; i < 8; i++) if(i < n && o->buf[i] != content[i]) same = 0;
		__CPROVER_assert(same, "C01: same octets");
	}
	if(sptr) { free(((OCTET_STRING_t *)sptr)->buf); free(sptr); }
}

void h_OCTET_STRING_decode_oer(void) {
	VF_BYTES(buf, 12); VF_SCALAR(size_t, size); VF_SCALAR(int, sub); VF_SCALAR(long, ct_size); VF_SCALAR(int, reuse);
	__CPROVER_assume(size <= 12 && sub >= 0 && sub <= 4 && ct_size >= -1 && ct_size <= 16);
	mk(sub);
	asn_oer_constraints_t ct; ct.value.width = 0; ct.value.positive = 0; ct.size = ct_size;
	void *sptr = 0;
	if(reuse) { OCTET_STRING_t *o = (OCTET_STRING_t *)calloc(1, sizeof(*o)); if(o) { o->buf = (uint8_t *)malloc(2); if(o->buf) o->size = 1; } sptr = o; }
	asn_dec_rval_t rv = OCTET_STRING_decode_oer(0, &td, &ct, &sptr, buf, size);
	VF_CANARY();
	__CPROVER_assert((rv.code == RC_OK || rv.code == RC_WMORE || rv.code == RC_FAIL) && rv.consumed <= size, "C04: code and consumed <= size");
	if(rv.code == RC_WMORE) __CPROVER_assert(rv.consumed == 0, "C05: starved decode consumes nothing");
	if(rv.code == RC_OK) __CPROVER_assert(sptr && ((OCTET_STRING_t *)sptr)->size <= size, "C15: the decoded string is never longer than the input");
	__CPROVER_assert(vf_alloc_peak_request <= size + 64 && vf_alloc_total_requested <= size + 128, "C15: whatever length the input announces, the decoder never asks the allocator for more than the input size plus a constant");
	if(sptr) { free(((OCTET_STRING_t *)sptr)->buf); free(sptr); }
}

VF_NATIVE_MAIN
