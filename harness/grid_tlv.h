/* shared driver for the BER container grids: outer header forms x sequences of TLV templates x every truncation x every split.
 * The including file defines VF_GRID, includes its harness, defines OUTER (identifier octet), TPL / NT, ONE and CHUNK entries. */
static unsigned char in_buf[VF_N]; static size_t in_len;
static void run(size_t size, size_t k) {
	vf_grid_n = 0;
	vf_grid_tab[vf_grid_n++] = (struct vf_grid_in){ "buf", 0, in_buf, VF_N };
	vf_grid_tab[vf_grid_n++] = (struct vf_grid_in){ "size", size, 0, 0 };
	vf_grid_tab[vf_grid_n++] = (struct vf_grid_in){ "k", k, 0, 0 };
	if(k == 0) VF_GRID_RUN(ONE);
	VF_GRID_RUN(CHUNK);
}
static void all_cuts(void) { for(size_t size = 0; size <= in_len; size++) for(size_t k = 0; k <= size; k++) run(size, k); }
static void put(const unsigned char *p, size_t n) { for(size_t i = 0; i < n && in_len < VF_N; i++) in_buf[in_len++] = p[i]; }
int main(void) {
	int idx[VF_TLVS];
	for(int cnt = 0; cnt <= VF_TLVS; cnt++) {
		long total = 1; for(int i = 0; i < cnt; i++) total *= NT;
		for(long code = 0; code < total; code++) {
			long c = code; size_t body = 0;
			for(int i = 0; i < cnt; i++) { idx[i] = (int)(c % NT); c /= NT; body += TPL[idx[i]][0]; }
			if(body > VF_N - 6) continue;
			for(int form = 0; form < NFORMS; form++) {
				memset(in_buf, 0, VF_N); in_len = 0;
				unsigned char h[4]; size_t hn = 0;
				if(OUTER) {
					h[hn++] = OUTER;
					if(form == 0) h[hn++] = (unsigned char)body;
					else if(form == 1) h[hn++] = (unsigned char)(body ? body - 1 : 0);
					else if(form == 2) h[hn++] = (unsigned char)(body + 1);
					else if(form == 3) { h[hn++] = 0x81; h[hn++] = (unsigned char)body; }
					else h[hn++] = 0x80;
				}
				put(h, hn);
				for(int i = 0; i < cnt; i++) put(TPL[idx[i]] + 1, TPL[idx[i]][0]);
				if(OUTER && form == 4) put((const unsigned char *)"\0\0", 2);
				all_cuts();
			}
		}
	}
	return VF_GRID_SUMMARY();
}
