/* SET OF / SEQUENCE OF over UPER: element count handling and the zero-width ("NULL bomb") guard.
 * The element type is a stub whose decoder consumes a fixed number of bits per element (0..8). */
#include <vf.h>
#include <asn_internal.h>
#include <constr_SET_OF.h>
#include <asn_SET_OF.h>
#include "asn_bit_data.c"
#include "per_support.c"
#include "asn_SET_OF.c"
#include "constr_SET_OF.c"

#ifndef VF_NELEMS
#define VF_NELEMS 201
#endif
#ifndef VF_FINDING_D5
#define VF_FINDING_D5 0
#endif
static int elem_bits;
static char dummy_elem;
static asn_dec_rval_t stub_elem_uper(const asn_codec_ctx_t *ctx, const asn_TYPE_descriptor_t *td, const asn_per_constraints_t *c, void **sptr, asn_per_data_t *pd) {
	asn_dec_rval_t rv = { RC_OK, 0 };   /* what every primitive UPER decoder of the library returns: consumed is left 0 */
	(void)ctx; (void)td; (void)c;
	if(elem_bits && per_get_few_bits(pd, elem_bits) < 0) { rv.code = RC_WMORE; return rv; }
	*sptr = &dummy_elem;
	return rv;
}
static void stub_free(const asn_TYPE_descriptor_t *td, void *p, enum asn_struct_free_method m) { (void)td; (void)p; (void)m; }

void h_SET_OF_decode_uper(void) {
	VF_SCALAR(int, w);
	static unsigned char data[2 + VF_NELEMS];
#ifdef VF_W
	w = VF_W;
#endif
	__CPROVER_assume(w >= 0 && w <= 8);
	VF_FINDING(VF_FINDING_D5, w >= 1);
	elem_bits = w;
	data[0] = 0x80 | (VF_NELEMS >> 8); data[1] = VF_NELEMS & 0xFF;           /* X.691 11.9.3.7 length determinant */
	asn_TYPE_operation_t eop; memset(&eop, 0, sizeof(eop)); eop.uper_decoder = stub_elem_uper; eop.free_struct = stub_free;
	asn_TYPE_descriptor_t etd; memset(&etd, 0, sizeof(etd)); etd.name = "E"; etd.op = &eop;
	asn_TYPE_member_t elm; memset(&elm, 0, sizeof(elm)); elm.type = &etd; elm.name = "";
	asn_SET_OF_specifics_t specs; memset(&specs, 0, sizeof(specs)); specs.struct_size = sizeof(struct { A_SET_OF(void) list; asn_struct_ctx_t ctx; }); specs.ctx_offset = sizeof(A_SET_OF(void));
	asn_TYPE_descriptor_t td; memset(&td, 0, sizeof(td)); td.name = "L"; td.elements = &elm; td.elements_count = 1; td.specifics = &specs;
	asn_per_data_t pd; memset(&pd, 0, sizeof(pd)); pd.buffer = data; pd.nbits = 8 * sizeof(data);
	asn_codec_ctx_t ctx; memset(&ctx, 0, sizeof(ctx));
	void *sptr = 0;
	asn_dec_rval_t rv = SET_OF_decode_uper(&ctx, &td, 0, &sptr, &pd);
	VF_CANARY();
	if(sptr) {
		asn_anonymous_set_ *list = _A_SET_FROM_VOID(sptr);
		if(w == 0) __CPROVER_assert(rv.code == RC_FAIL, "C15: more than 200 zero-width elements are refused (no decompression bomb)");
		else    /* allocation is not allowed to fail in this obligation */
			__CPROVER_assert(rv.code == RC_OK && list->count == VF_NELEMS, "C01/C03: a valid SEQUENCE OF with 201 elements of non-zero width decodes");
		asn_set_empty(list); free(sptr);
	}
}

VF_NATIVE_MAIN
