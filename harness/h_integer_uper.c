/* NativeInteger / INTEGER over unaligned PER (X.691 11.5, 13.2): wire format and round trip for every
 * constraint record the compiler can emit for a value range */
#include <vf.h>
#include <asn_internal.h>
#include <INTEGER.h>
#include <NativeInteger.h>
#include <per_support.h>
#include <spec/x690.h>
#define VF_CB_CAP 24
#include <vf_cb.h>
#include "ber_tlv_tag.c"
#include "ber_tlv_length.c"
#include "ber_decoder.c"
#include "der_encoder.c"
#include "asn_codecs_prim.c"
#include "asn_bit_data.c"
#include "per_support.c"
#include "INTEGER.c"
#include "NativeInteger.c"
size_t vf_k;

static asn_per_outp_t po;
static asn_per_data_t pd;
static int key;
static unsigned bit_at(const unsigned char *p, size_t q) { return (p[q >> 3] >> (7 - (q & 7))) & 1u; }
static uint64_t field(size_t pos, int n) { uint64_t v = 0; int i; for(i = 0; i < 64; i++) if(i < n) v = (v << 1) | bit_at(vf_cb_log, pos + i); return v; }
#ifdef VF_RB
#define FIELD_RB(pos) field(pos, VF_RB)
#endif
static int bits_for(unsigned long range) { /* smallest b with range < 2^b */
	int b = 0; int i; for(i = 0; i < 64; i++) if(range >> i) b = i + 1; return b;
}

/* constrained (optionally extensible) signed range: [ext bit] + (v - lb) in range_bits bits */
void h_NativeInteger_uper_constrained(void) {
	VF_SCALAR(long, v); VF_SCALAR(long, lb); VF_SCALAR(long, ub); VF_SCALAR(int, ext);
	__CPROVER_assume(lb <= ub);
	unsigned long range = (unsigned long)ub - (unsigned long)lb;
	asn_per_constraints_t ct; memset(&ct, 0, sizeof(ct));
	ct.value.flags = APC_CONSTRAINED | (ext ? APC_EXTENSIBLE : 0);
#ifdef VF_RB
	/* the range width is a constant of the obligation (one obligation per width class) */
	__CPROVER_assume(VF_RB == 0 ? range == 0 : VF_RB == 64 ? (range >> 63) == 1 : ((range >> VF_RB) == 0 && (range >> (VF_RB - 1)) == 1));
	ct.value.range_bits = VF_RB;
#else
	ct.value.range_bits = bits_for(range);
#endif
	ct.value.effective_bits = ct.value.range_bits;
	ct.value.lower_bound = lb; ct.value.upper_bound = ub;
	ct.size.flags = APC_UNCONSTRAINED; ct.size.range_bits = -1; ct.size.effective_bits = -1;
	memset(&po, 0, sizeof(po)); po.buffer = po.tmpspace; po.nbits = 8 * sizeof(po.tmpspace); po.output = vf_cb; po.op_key = &key;
	asn_enc_rval_t er = NativeInteger_encode_uper(&asn_DEF_NativeInteger, &ct, &v, &po);
	int fl = asn_put_aligned_flush(&po);
	VF_CANARY();
	int inrange = v >= lb && v <= ub;
	if(!inrange && !ext) { __CPROVER_assert(er.encoded == -1, "C07/C08: a value outside a non-extensible constraint cannot be encoded"); return; }
	if(!inrange) return;   /* extension values: unconstrained form, covered by h_NativeInteger_uper_unconstrained */
	__CPROVER_assert(er.encoded == 0 && fl == 0, "C07: encodes");
	size_t pos = 0;
	if(ext) { __CPROVER_assert(field(0, 1) == 0, "X.691 13.1: extension bit 0 for a root value"); pos = 1; }
	__CPROVER_assert(field(pos, ct.value.range_bits) == (unsigned long)v - (unsigned long)lb, "X.691 11.5.6: offset from the lower bound in the minimum number of bits for the range");
	__CPROVER_assert(vf_cb_bytes == (pos + ct.value.range_bits + 7) / 8, "C02: no other bits");
	/* decode */
	memset(&pd, 0, sizeof(pd)); pd.buffer = vf_cb_log; pd.nbits = 8 * vf_cb_bytes;
	long *back = 0;
	asn_dec_rval_t rv = NativeInteger_decode_uper(0, &asn_DEF_NativeInteger, &ct, (void **)&back, &pd);
	if(back) { __CPROVER_assert(rv.code == RC_OK && *back == v, "C01: decode(encode(v)) == v"); free(back); }
}

/* unconstrained: length determinant + minimal two's complement octets (X.691 13.2.4, 11.8) */
void h_NativeInteger_uper_unconstrained(void) {
	VF_SCALAR(long, v);
	memset(&po, 0, sizeof(po)); po.buffer = po.tmpspace; po.nbits = 8 * sizeof(po.tmpspace); po.output = vf_cb; po.op_key = &key;
	asn_enc_rval_t er = NativeInteger_encode_uper(&asn_DEF_NativeInteger, 0, &v, &po);
	int fl = asn_put_aligned_flush(&po);
	VF_CANARY();
	size_t L = spec_int_len(v);
	__CPROVER_assert(er.encoded == 0 && fl == 0 && vf_cb_bytes == 1 + L, "C02: one length octet + minimal contents");
	__CPROVER_assert(vf_cb_log[0] == L && VF_OCT_EQ(vf_cb_log + 1, L, spec_int_octet, v), "X.691 11.8/13.2.4: length then 2's-complement-binary-integer in the minimum number of octets");
	memset(&pd, 0, sizeof(pd)); pd.buffer = vf_cb_log; pd.nbits = 8 * vf_cb_bytes;
	long *back = 0;
	asn_dec_rval_t rv = NativeInteger_decode_uper(0, &asn_DEF_NativeInteger, 0, (void **)&back, &pd);
	if(back) { __CPROVER_assert(rv.code == RC_OK && *back == v, "C01: decode(encode(v)) == v"); free(back); }
}

/* arbitrary bits into the decoder, every constraint shape: C04 / C14 */
void h_NativeInteger_decode_uper_any(void) {
	VF_BYTES(data, 12); VF_SCALAR(size_t, nbits); VF_SCALAR(int, flags); VF_SCALAR(int, range_bits); VF_SCALAR(long, lb); VF_SCALAR(long, ub); VF_SCALAR(int, uns); VF_SCALAR(int, noct);
	__CPROVER_assume(nbits <= 96 && flags >= 0 && flags <= 7 && range_bits >= -1 && range_bits <= 64 && lb <= ub);
	asn_per_constraints_t ct; memset(&ct, 0, sizeof(ct));
	ct.value.flags = flags; ct.value.range_bits = range_bits; ct.value.effective_bits = range_bits; ct.value.lower_bound = lb; ct.value.upper_bound = ub;
	asn_INTEGER_specifics_t specs; memset(&specs, 0, sizeof(specs)); specs.field_width = sizeof(long); specs.field_unsigned = uns ? 1 : 0;
	asn_TYPE_descriptor_t td = asn_DEF_NativeInteger; td.specifics = &specs;
	memset(&pd, 0, sizeof(pd)); pd.buffer = data; pd.nbits = nbits;
	long *out = 0;
	asn_dec_rval_t rv = NativeInteger_decode_uper(0, &td, noct ? 0 : &ct, (void **)&out, &pd);
	VF_CANARY();
	__CPROVER_assert(rv.code == RC_OK || rv.code == RC_WMORE || rv.code == RC_FAIL, "C04: return code");
	__CPROVER_assert(pd.nboff <= pd.nbits && pd.moved <= nbits, "C04: never reads past the input bits");
	free(out);   /* --memory-leak-check: the temporary INTEGER is released on every path */
}

VF_NATIVE_MAIN
