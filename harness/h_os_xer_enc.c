/* OCTET_STRING_encode_xer (CANONICAL-XER) against its contract for strings of every length (C04 scratch buffer, C07 size
 * accounting and failure, C19 frame).  The output callback is a harness stub without side effects that may refuse any call. */
#include <vf.h>
#include <asn_internal.h>
#include <OCTET_STRING.h>
static int out_cb(const void *p, size_t n, void *key) { VF_SCALAR(int, answer); (void)p; (void)n; (void)key; return answer; }
void h_OCTET_STRING_encode_xer_canonical(void) {
	VF_SCALAR(int, n);
	__CPROVER_assume(n >= 0 && n <= (1 << 28));
	OCTET_STRING_t *st = (OCTET_STRING_t *)malloc(sizeof(*st)); __CPROVER_assume(st != 0);
	memset(st, 0, sizeof(*st)); st->buf = (uint8_t *)malloc((size_t)n); __CPROVER_assume(st->buf != 0); st->size = n;
	asn_enc_rval_t er = OCTET_STRING_encode_xer(&asn_DEF_OCTET_STRING, st, 0, XER_F_CANONICAL, out_cb, 0);
	VF_CANARY();
	__CPROVER_assert(er.encoded == -1 || er.encoded == 2 * (ssize_t)n, "C07: two digits per octet, or a clean failure");
}
VF_NATIVE_MAIN
