/* BIT STRING over OER (X.696 clause 13): termination, size accounting, unused bits zeroed, padding to a fixed size */
#include <vf.h>
#include <asn_internal.h>
#include <BIT_STRING.h>
#define VF_CB_CAP 16
#include <vf_cb.h>
#include "oer_support.c"
#include "BIT_STRING_oer.c"
#ifndef VF_FINDING_D16
#define VF_FINDING_D16 0
#endif
#ifndef VF_FINDING_D17
#define VF_FINDING_D17 0
#endif

void h_BIT_STRING_encode_oer(void) {
	VF_BYTES(a, 4); VF_SCALAR(size_t, n); VF_SCALAR(int, unused); VF_SCALAR(long, ct_size); VF_SCALAR(int, nullbuf); VF_SCALAR(long, fail_at);
#ifdef VF_NONULL
	nullbuf = 0;
#endif
	__CPROVER_assume(n <= 4 && ct_size >= -1 && ct_size <= 64 && fail_at >= -1 && fail_at <= 3);
	BIT_STRING_t st; memset(&st, 0, sizeof(st)); st.buf = nullbuf ? (uint8_t *)0 : a; st.size = n; st.bits_unused = unused;
	asn_oer_constraints_t ct; ct.value.width = 0; ct.value.positive = 0; ct.size = ct_size;
	asn_TYPE_descriptor_t td; memset(&td, 0, sizeof(td)); td.name = "B";
	VF_FINDING(VF_FINDING_D16, ct_size >= 0 && ((size_t)ct_size + 7) / 8 > n);
	VF_FINDING(VF_FINDING_D17, unused >= 1 && unused <= 7 && n >= 1 && !nullbuf && (a[n - 1] >> unused) == 0 && (a[n - 1] & ((1 << unused) - 1)) != 0);
	vf_cb_fail_at = fail_at;
	int key = 0;
	asn_enc_rval_t er = BIT_STRING_encode_oer(&td, &ct, &st, vf_cb, &key);
	VF_CANARY();
	size_t ctb = ct_size >= 0 ? ((size_t)ct_size + 7) / 8 : 0;
	int malformed = (unused < 0 || unused > 7) || (unused && (n == 0 || nullbuf)) || (ct_size >= 0 && n > ctb) || (nullbuf && n > 0);
	if(vf_cb_failed) { __CPROVER_assert(er.encoded == -1, "C07: callback failure gives -1"); return; }
	if(malformed) { __CPROVER_assert(er.encoded == -1, "C07: malformed BIT STRING (bad unused-bit count, missing buffer, longer than the fixed size) is refused, no out-of-bounds read"); return; }
	__CPROVER_assert(er.encoded == (ssize_t)vf_cb_bytes, "C07: reported size equals bytes delivered");
	if(ct_size >= 0) {
		__CPROVER_assert(vf_cb_bytes == ctb, "C02: X.696 13.1 fixed-size BIT STRING occupies exactly ceil(size/8) octets");
	} else {
		__CPROVER_assert(vf_cb_bytes == 2 + n && vf_cb_log[0] == 1 + n && vf_cb_log[1] == unused, "C02: X.696 13.2 length, unused-bits octet, contents");
		if(n >= 1) __CPROVER_assert((uint8_t)(vf_cb_log[1 + n] << (8 - unused)) == 0 || unused == 0, "C06: unused bits are zero on the wire");
		if(n >= 1) __CPROVER_assert((vf_cb_log[1 + n] >> unused) == (a[n - 1] >> unused), "C02: used bits of the last octet preserved");
	}
}

VF_NATIVE_MAIN
