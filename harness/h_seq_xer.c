/* SEQUENCE over XER (C03, C04, C05, C14): the real SEQUENCE_decode_xer (with the real xer_next_token, xer_check_tag,
 * xer_skip_unknown, pxml_parse) and SEQUENCE_free over a hand-laid descriptor of the shape asn1c emits:
 *      T ::= SEQUENCE { a SV, b SV OPTIONAL, c SV, ..., d SV OPTIONAL }
 * Member type SV is a harness stub whose XER decoder is the real xer_decode_general with a body receiver that keeps the text.
 * Too heavy for CBMC (string scanning inside a restart machine): evaluated by the native grid harness/grid_seq_xer.c. */
#include <vf.h>
#include <asn_internal.h>
#include <constr_SEQUENCE.h>
#include <xer_decoder.h>

#ifndef VF_N
#define VF_N 48
#endif
struct sv { uint8_t n; char v[6]; asn_struct_ctx_t ctx; };
struct T { struct sv a; struct sv *b; struct sv c; struct sv *d; asn_struct_ctx_t _asn_ctx; };
static asn_TYPE_descriptor_t sv_td, T_td;
static asn_TYPE_operation_t sv_op;
static asn_TYPE_member_t T_elems[4];
static asn_SEQUENCE_specifics_t T_specs;

static ssize_t sv_body(void *key, const void *chunk, size_t size, int have_more) {
	struct sv *s = (struct sv *)key; (void)have_more;
	for(size_t i = 0; i < size; i++) if(s->n < sizeof(s->v)) s->v[s->n++] = ((const char *)chunk)[i];
	return (ssize_t)size;
}
static asn_dec_rval_t sv_xer(const asn_codec_ctx_t *c, const asn_TYPE_descriptor_t *td, void **sptr, const char *name, const void *buf, size_t size) {
	struct sv *s = (struct sv *)*sptr; asn_dec_rval_t rv;
	if(!s) { s = (struct sv *)calloc(1, sizeof(*s)); *sptr = s; if(!s) { rv.code = RC_FAIL; rv.consumed = 0; return rv; } }
	return xer_decode_general(c, &s->ctx, s, name ? name : td->xml_tag, buf, size, 0, sv_body);
}
static void sv_free(const asn_TYPE_descriptor_t *td, void *p, enum asn_struct_free_method m) {
	(void)td;
	if(!p) return;
	if(m == ASFM_FREE_EVERYTHING) free(p);
	else if(m == ASFM_FREE_UNDERLYING_AND_RESET) memset(p, 0, sizeof(struct sv));
}
static void member(asn_TYPE_member_t *e, enum asn_TYPE_flags_e flags, unsigned optional, unsigned off, const char *name) {
	memset(e, 0, sizeof(*e)); e->flags = flags; e->optional = optional; e->memb_offset = off; e->type = &sv_td; e->name = name;
}
static void setup(void) {
	memset(&sv_op, 0, sizeof(sv_op)); sv_op.xer_decoder = sv_xer; sv_op.free_struct = sv_free;
	memset(&sv_td, 0, sizeof(sv_td)); sv_td.name = "SV"; sv_td.xml_tag = "SV"; sv_td.op = &sv_op;
	member(&T_elems[0], ATF_NOFLAGS, 0, offsetof(struct T, a), "a");
	member(&T_elems[1], ATF_POINTER, 1, offsetof(struct T, b), "b");
	member(&T_elems[2], ATF_NOFLAGS, 0, offsetof(struct T, c), "c");
	member(&T_elems[3], ATF_POINTER, 1, offsetof(struct T, d), "d");
	memset(&T_specs, 0, sizeof(T_specs)); T_specs.struct_size = sizeof(struct T); T_specs.ctx_offset = offsetof(struct T, _asn_ctx); T_specs.first_extension = 3;
	memset(&T_td, 0, sizeof(T_td)); T_td.name = "T"; T_td.xml_tag = "T"; T_td.elements = T_elems; T_td.elements_count = 4; T_td.specifics = &T_specs;
}
/* independent reading of a complete document */
struct expect { int has_b, has_d; char a, b, c, d; size_t total; };
static const unsigned char *P; static size_t N, I;
static int is_ws(int c) { return c == 0x09 || c == 0x0a || c == 0x0c || c == 0x0d || c == 0x20; }
static void skip(void) {
	for(;;) {
		while(I < N && is_ws(P[I])) I++;
		if(I + 7 <= N && !memcmp(P + I, "<!--", 4)) { size_t j = I + 4; while(j + 3 <= N && memcmp(P + j, "-->", 3)) { if(P[j] == '-' && P[j + 1] == '-') return; j++; } if(j + 3 > N) return; I = j + 3; continue; }
		return;
	}
}
static int lit(const char *s) { size_t l = strlen(s); if(I + l <= N && !memcmp(P + I, s, l)) { I += l; return 1; } return 0; }
static int elem(char name, char *v) {
	char o[4] = { '<', name, '>', 0 }, c[5] = { '<', '/', name, '>', 0 }; size_t save = I;
	if(!lit(o)) return 0;
	if(I < N && P[I] != '<' && !is_ws(P[I])) { *v = (char)P[I]; I++; if(lit(c)) return 1; }
	I = save; return 0;
}
static int spec_valid(const unsigned char *p, size_t n, struct expect *e) {
	P = p; N = n; I = 0; e->has_b = e->has_d = 0;
	skip(); if(!lit("<T>")) return 0;
	skip(); if(!elem('a', &e->a)) return 0;
	skip(); if(elem('b', &e->b)) e->has_b = 1;
	skip(); if(!elem('c', &e->c)) return 0;
	skip(); if(elem('d', &e->d)) e->has_d = 1;
	for(int r = 0; r < 3; r++) { char x; skip(); if(!elem('u', &x) && !lit("<u/>")) break; }
	skip(); if(!lit("</T>")) return 0;
	e->total = I;
	return 1;
}
static int sv_is(const struct sv *s, char v) { return s && s->n == 1 && s->v[0] == v; }
static int sv_eq(const struct sv *x, const struct sv *y) { if(!x || !y) return x == y; return x->n == y->n && !memcmp(x->v, y->v, x->n); }
static int T_eq(const struct T *x, const struct T *y) { return sv_eq(&x->a, &y->a) && sv_eq(x->b, y->b) && sv_eq(&x->c, &y->c) && sv_eq(x->d, y->d); }

void h_SEQUENCE_decode_xer(void) {
	VF_BYTES(buf, VF_N); VF_SCALAR(size_t, size); VF_SCALAR(size_t, k);
	__CPROVER_assume(size <= VF_N && k <= size);
	setup();
	void *st1 = 0, *st2 = 0;
	asn_dec_rval_t one = SEQUENCE_decode_xer(0, &T_td, &st1, 0, buf, size);
	VF_CANARY();
	__CPROVER_assert(one.code == RC_OK || one.code == RC_WMORE || one.code == RC_FAIL, "C04: return code is RC_OK, RC_WMORE or RC_FAIL");
	__CPROVER_assert(one.consumed <= size, "C04: consumed <= size");
	{ struct expect e;
	  if(spec_valid(buf, size, &e)) {
		struct T *t = (struct T *)st1;
		__CPROVER_assert(one.code == RC_OK && one.consumed == e.total, "C03: a valid document (whitespace, comments, unknown additions) is accepted with its full length consumed");
		if(one.code == RC_OK) __CPROVER_assert(sv_is(&t->a, e.a) && sv_is(&t->c, e.c) && (t->b != 0) == e.has_b && (!e.has_b || sv_is(t->b, e.b)) && (t->d != 0) == e.has_d && (!e.has_d || sv_is(t->d, e.d)), "C03: every member present is decoded, absent ones stay absent");
	  } }
	asn_dec_rval_t r1 = SEQUENCE_decode_xer(0, &T_td, &st2, 0, buf, k);
	__CPROVER_assert(r1.consumed <= k, "C05: consumed does not exceed the chunk");
	if(one.code == RC_OK && k < one.consumed) __CPROVER_assert(r1.code == RC_WMORE, "C05: a proper prefix of a valid encoding yields RC_WMORE");
	if(r1.code == RC_WMORE) {
		asn_dec_rval_t r2 = SEQUENCE_decode_xer(0, &T_td, &st2, 0, buf + r1.consumed, size - r1.consumed);
		__CPROVER_assert(r2.code == one.code, "C05: chunked decoding ends with the same return code as one-shot decoding");
		if(one.code == RC_OK) {
			__CPROVER_assert(r1.consumed + r2.consumed == one.consumed, "C05: chunked decoding consumes the same total");
			__CPROVER_assert(T_eq((struct T *)st1, (struct T *)st2), "C05: chunked decoding yields the same value");
		}
	} else {
		__CPROVER_assert(r1.code == one.code, "C05: a chunk that decides the outcome decides it as the whole buffer does");
		if(one.code == RC_OK) __CPROVER_assert(r1.consumed == one.consumed && T_eq((struct T *)st1, (struct T *)st2), "C05: same consumed count and value");
	}
	SEQUENCE_free(&T_td, st1, ASFM_FREE_EVERYTHING); SEQUENCE_free(&T_td, st2, ASFM_FREE_EVERYTHING);
}
VF_NATIVE_MAIN
