/* C17: OBJECT IDENTIFIER helper APIs (X.690 8.19) */
#include <vf.h>
#include <asn_internal.h>
#include <OBJECT_IDENTIFIER.h>
#include <errno.h>
#include <limits.h>
#include "OBJECT_IDENTIFIER.c"

#ifndef VF_FINDING_D4
#define VF_FINDING_D4 0
#endif

/* X.690 8.19.2: number of base-128 octets, fewest possible */
static size_t spec_arc_len(uint32_t v) { return v < (1u << 7) ? 1 : v < (1u << 14) ? 2 : v < (1u << 21) ? 3 : v < (1u << 28) ? 4 : 5; }
static uint8_t spec_arc_octet(uint32_t v, size_t i) {
	size_t n = spec_arc_len(v);
	uint8_t g = (uint8_t)((v >> (7 * (n - 1 - i))) & 0x7F);
	return (uint8_t)(i == n - 1 ? g : (0x80 | g));
}

/* every arc value and every buffer length */
void h_set_single_arc(void) {
	VF_SCALAR(uint32_t, v);
	VF_SCALAR(size_t, len);
	uint8_t buf[8] = { 0xEE, 0xEE, 0xEE, 0xEE, 0xEE, 0xEE, 0xEE, 0xEE };
	__CPROVER_assume(len <= 8);
	ssize_t r = OBJECT_IDENTIFIER_set_single_arc(buf, len, v);
	VF_CANARY();
	size_t n = spec_arc_len(v);
	if(n > len) {
		__CPROVER_assert(r == -1, "C17: arc that does not fit the buffer is refused");
		__CPROVER_assert(buf[0] == 0xEE && buf[1] == 0xEE && buf[2] == 0xEE && buf[3] == 0xEE && buf[4] == 0xEE, "C07: nothing written when refused");
	} else {
		__CPROVER_assert(r == (ssize_t)n, "C17: X.690 8.19.2 fewest base-128 octets");
		__CPROVER_assert(buf[0] == spec_arc_octet(v, 0) && (n <= 1 || buf[1] == spec_arc_octet(v, 1)) && (n <= 2 || buf[2] == spec_arc_octet(v, 2))
			&& (n <= 3 || buf[3] == spec_arc_octet(v, 3)) && (n <= 4 || buf[4] == spec_arc_octet(v, 4)), "C17: base-128 big-endian octets, bit 8 set on all but the last");
		__CPROVER_assert((n >= 8 || buf[n] == 0xEE) && buf[7] == 0xEE, "C07: no write beyond the arc");
		{	/* inverse */
			asn_oid_arc_t back = 0;
			__CPROVER_assert(OBJECT_IDENTIFIER_get_single_arc(buf, n, &back) == (ssize_t)n && back == v, "C17: get_single_arc(set_single_arc(v)) == v");
		}
	}
}

/* every octet string of up to 12 octets: value is the base-128 number up to the first octet with bit 8 clear */
#define VF_MAXARC 12
void h_get_single_arc(void) {
	VF_BYTES(buf, VF_MAXARC);
	VF_SCALAR(size_t, len);
	__CPROVER_assume(len <= VF_MAXARC);
	asn_oid_arc_t out = 0x5a5a5a5a;
	errno = 0;
	ssize_t r = OBJECT_IDENTIFIER_get_single_arc(buf, len, &out);
	VF_CANARY();
	/* reference */
	uint64_t acc = 0; size_t i, used = 0; int done = 0;
	for(i = 0; i < VF_MAXARC; i++) if(i < len && !done) {
		if(acc < (1ull << 40)) acc = (acc << 7) | (buf[i] & 0x7F);
		if(!(buf[i] & 0x80)) { done = 1; used = i + 1; }
	}
	VF_FINDING(VF_FINDING_D4, done && acc > 0xFFFFFFFFull);
	if(len == 0) __CPROVER_assert(r == 0, "C17: empty input yields 0");
	else if(!done) __CPROVER_assert(r == -1 && (errno == EINVAL || errno == ERANGE), "C17: unterminated arc is refused");
	else if(acc > 0xFFFFFFFFull) __CPROVER_assert(r == -1 && errno == ERANGE, "C17: arc above 2^32-1 is reported as ERANGE");
	else __CPROVER_assert(r == (ssize_t)used && out == (asn_oid_arc_t)acc, "C17: arc value is the base-128 number; 0x80 padding accepted");
}

/* memory safety and termination of get_single_arc for every length (loop contract) */
void h_get_single_arc_safe(void) {
	VF_SCALAR(size_t, len);
	__CPROVER_assume(len <= (SIZE_MAX >> 1));
	VF_HEAPBUF(buf, len);
	asn_oid_arc_t out = 0;
	ssize_t r = OBJECT_IDENTIFIER_get_single_arc(buf, len, &out);
	VF_CANARY();
	__CPROVER_assert(r >= -1 && (r <= 0 || (size_t)r <= len), "C04: consumed <= size");
	__CPROVER_assert((len == 0) == (r == 0), "C17: 0 only for empty input");
	free(buf);
}

/* 8.19.4 first two arcs */
void h_get_first_arcs(void) {
	VF_BYTES(buf, 8);
	VF_SCALAR(size_t, len);
	__CPROVER_assume(len <= 8);
	asn_oid_arc_t a0 = 77, a1 = 77, v = 0;
	ssize_t r = OBJECT_IDENTIFIER_get_first_arcs(buf, len, &a0, &a1);
	VF_CANARY();
	ssize_t r1 = OBJECT_IDENTIFIER_get_single_arc(buf, len, &v);
	__CPROVER_assert(r == r1, "C17: first subidentifier is one base-128 number");
	if(r > 0) {
		__CPROVER_assert(a0 <= 2 && (a0 == 2 || a1 < 40), "C17: 8.19.4 first arc 0..2, second arc < 40 unless first is 2");
		__CPROVER_assert((uint64_t)a0 * 40 + a1 == v, "C17: 8.19.4 subidentifier = X*40 + Y");
	}
}

/* set_arcs o get_arcs, up to VF_MAXARCS (<= 4) arcs */
#ifndef VF_MAXARCS
#define VF_MAXARCS 3
#endif
void h_arcs_roundtrip(void) {
	VF_SCALAR(uint32_t, a0); VF_SCALAR(uint32_t, a1); VF_SCALAR(uint32_t, a2); VF_SCALAR(uint32_t, a3);
	VF_SCALAR(size_t, n);
	VF_SCALAR(int, had_buf);
	asn_oid_arc_t arcs[4] = { a0, a1, a2, a3 }, back[4] = { 9, 9, 9, 9 };
	OBJECT_IDENTIFIER_t st; st.buf = 0; st.size = 0;
	__CPROVER_assume(n <= VF_MAXARCS);
	if(had_buf) { st.buf = (uint8_t *)malloc(3); if(st.buf) { st.size = 2; st.buf[0] = 0x2a; st.buf[1] = 3; st.buf[2] = 0; } }
	uint8_t *oldbuf = st.buf; size_t oldsize = st.size;
	errno = 0;
	int r = OBJECT_IDENTIFIER_set_arcs(&st, arcs, n);
	VF_CANARY();
	int valid = n >= 2 && (a0 <= 1 ? a1 < 40 : (a0 == 2 && a1 <= 0xFFFFFFFFu - 80));
	if(!valid) __CPROVER_assert(r == -1 && (errno == EINVAL || errno == ERANGE) && st.buf == oldbuf && st.size == oldsize, "C17: invalid first pair / too few arcs rejected with errno, structure untouched");
	else if(r == 0) {
		ssize_t g = OBJECT_IDENTIFIER_get_arcs(&st, back, 4);
		__CPROVER_assert(g == (ssize_t)n, "C17: get_arcs returns the number of arcs set");
		__CPROVER_assert(back[0] == a0 && back[1] == a1 && (n <= 2 || back[2] == a2) && (n <= 3 || back[3] == a3), "C17: get_arcs(set_arcs(v)) == v");
		__CPROVER_assert(st.buf[st.size] == 0, "C04: buffer is NUL terminated");
		{	/* stored octets are the 8.19 form */
			uint32_t first = a0 * 40 + a1;
			size_t l0 = spec_arc_len(first);
			__CPROVER_assert(st.size == l0 + (n > 2 ? spec_arc_len(a2) : 0) + (n > 3 ? spec_arc_len(a3) : 0), "C17: contents length is the sum of minimal subidentifiers");
			__CPROVER_assert(st.buf[0] == spec_arc_octet(first, 0) && st.buf[l0 - 1] == spec_arc_octet(first, l0 - 1), "C17: first subidentifier octets");
		}
	} else __CPROVER_assert(r == -1 && st.buf == oldbuf && st.size == oldsize, "C14: allocation failure leaves the structure untouched");
	free(st.buf);
}

VF_NATIVE_MAIN
