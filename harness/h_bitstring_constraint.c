/* C08: BIT STRING padding constraint */
#include <vf.h>
#include <asn_internal.h>
#include <BIT_STRING.h>
/* BIT STRING padding constraint */
#include "BIT_STRING.c"
void h_BIT_STRING_constraint(void) {
	VF_SCALAR(size_t, size); VF_SCALAR(int, unused); VF_SCALAR(int, nullbuf);
	unsigned char b[2] = { 0, 0 };
	BIT_STRING_t st; memset(&st, 0, sizeof(st)); st.buf = nullbuf ? (uint8_t *)0 : b; st.size = size; st.bits_unused = unused;
	int r = BIT_STRING_constraint(&asn_DEF_BIT_STRING, &st, 0, 0);
	VF_CANARY();
	int ok = !nullbuf && unused >= 0 && unused <= 7 && !(size == 0 && unused != 0);
	__CPROVER_assert(r == (ok ? 0 : -1), "C08: X.690 8.6.2: unused bits 0..7, and 0 for an empty string");
}


VF_NATIVE_MAIN
