/* XER body converters of OCTET STRING / BIT STRING (C03, C04, C05): the real OCTET_STRING__convert_hexadecimal and
 * OCTET_STRING__convert_binary on every text of at most VF_N characters, one-shot and in two chunks with the protocol of
 * xer_decode_general (have_more = a tag follows the text in the buffer; the characters a call does not report converted
 * are presented again).  Expected value: the hexadecimal digits in pairs (an odd last digit is the high nibble), resp.
 * the 0/1 characters as bits, whitespace ignored (X.693 8.x hstring / bstring). */
#include <vf.h>
#include <asn_internal.h>
#include <OCTET_STRING.h>
#include <BIT_STRING.h>
#include "OCTET_STRING.c"

#ifndef VF_N
#define VF_N 6
#endif
/* the state OCTET_STRING__decode_xer hands to the body receiver: an empty string whose buffer holds the terminating 0
 * (the converters rely on buf[size] == 0, which they re-establish on return) */
#define VF_START_STATE(s) do { (s).buf = (uint8_t *)calloc(1, 1); __CPROVER_assume((s).buf != 0); } while(0)
static int is_ws(int c) { return c == 0x09 || c == 0x0a || c == 0x0c || c == 0x0d || c == 0x20; }
static int hexval(int c) { return c >= '0' && c <= '9' ? c - '0' : c >= 'A' && c <= 'F' ? c - 'A' + 10 : c >= 'a' && c <= 'f' ? c - 'a' + 10 : -1; }

void h_convert_hexadecimal(void) {
	VF_BYTES(t, VF_N); VF_SCALAR(size_t, n); VF_SCALAR(size_t, k);
	__CPROVER_assume(n <= VF_N && k <= n);
	OCTET_STRING_t a, b; memset(&a, 0, sizeof(a)); memset(&b, 0, sizeof(b));
	VF_START_STATE(a); VF_START_STATE(b);
	/* expected */
	unsigned char exp[(VF_N + 1) / 2]; size_t en = 0; int half = 0, bad = 0; unsigned cur = 0;
	for(size_t i = 0; i < VF_N; i++) if(i < n && !bad) {
		if(is_ws(t[i])) continue;
		int h = hexval(t[i]);
		if(h < 0) { bad = 1; continue; }
		if(!half) { cur = (unsigned)h << 4; half = 1; } else { exp[en++] = (unsigned char)(cur | (unsigned)h); half = 0; }
	}
	if(half && !bad) exp[en++] = (unsigned char)cur;
	ssize_t one = OCTET_STRING__convert_hexadecimal(&a, t, n, 1);
	VF_CANARY();
	if(bad) __CPROVER_assert(one == -1, "C03: a character that is neither a hexadecimal digit nor whitespace is refused");
	else {
		__CPROVER_assert(one == (ssize_t)n, "C03: the whole text is converted when a tag follows it");
		__CPROVER_assert(a.size == en, "C03: number of octets");
		for(size_t i = 0; i < sizeof(exp); i++) if(i < en) __CPROVER_assert(a.buf[i] == exp[i], "C03: hexadecimal digits in pairs, whitespace ignored");
	}
	/* two chunks: the first ends with the buffer (have_more = 0), the rest is followed by the tag */
	ssize_t c1 = OCTET_STRING__convert_hexadecimal(&b, t, k, 0);
	if(c1 == -1) { __CPROVER_assert(bad, "C05: a chunk is refused only if the text is bad"); }
	else {
		__CPROVER_assert(c1 >= 0 && (size_t)c1 <= k, "C05: converted count does not exceed the chunk");
		ssize_t c2 = OCTET_STRING__convert_hexadecimal(&b, t + c1, n - (size_t)c1, 1);
		if(bad) __CPROVER_assert(c2 == -1, "C05: same verdict as one-shot");
		else {
			__CPROVER_assert(c2 >= 0 && (size_t)c1 + (size_t)c2 == n, "C05: chunked conversion consumes the same total");
			__CPROVER_assert(b.size == en, "C05: chunked conversion yields the same number of octets");
			for(size_t i = 0; i < sizeof(exp); i++) if(i < en) __CPROVER_assert(b.buf[i] == exp[i], "C05: chunked conversion yields the same octets");
		}
	}
	free(a.buf); free(b.buf);
}

void h_convert_binary(void) {
	VF_BYTES(t, VF_N); VF_SCALAR(size_t, n); VF_SCALAR(size_t, k);
	__CPROVER_assume(n <= VF_N && k <= n);
	BIT_STRING_t a, b; memset(&a, 0, sizeof(a)); memset(&b, 0, sizeof(b));
	VF_START_STATE(a); VF_START_STATE(b);
	unsigned char exp[(VF_N + 7) / 8 + 1]; size_t nb = 0; int bad = 0;
	for(size_t i = 0; i < sizeof(exp); i++) exp[i] = 0;
	for(size_t i = 0; i < VF_N; i++) if(i < n && !bad) {
		if(is_ws(t[i])) continue;
		if(t[i] != '0' && t[i] != '1') { bad = 1; continue; }
		if(t[i] == '1') exp[nb >> 3] |= (unsigned char)(0x80 >> (nb & 7));
		nb++;
	}
	ssize_t one = OCTET_STRING__convert_binary(&a, t, n, 1);
	VF_CANARY();
	if(bad) __CPROVER_assert(one == -1, "C03: a character other than 0, 1 and whitespace is refused");
	else {
		__CPROVER_assert(one == (ssize_t)n, "C03: the whole text is converted");
		__CPROVER_assert(a.size == (nb + 7) / 8 && a.bits_unused == (int)((8 - (nb & 7)) & 7), "C03: number of bits");
		for(size_t i = 0; i < sizeof(exp); i++) if(i < (nb + 7) / 8) __CPROVER_assert(a.buf[i] == exp[i], "C03: bits in order, most significant first");
	}
	ssize_t c1 = OCTET_STRING__convert_binary(&b, t, k, 0);
	if(c1 == -1) { __CPROVER_assert(bad, "C05: a chunk is refused only if the text is bad"); }
	else {
		__CPROVER_assert(c1 >= 0 && (size_t)c1 <= k, "C05: converted count does not exceed the chunk");
		ssize_t c2 = OCTET_STRING__convert_binary(&b, t + c1, n - (size_t)c1, 1);
		if(bad) __CPROVER_assert(c2 == -1, "C05: same verdict as one-shot");
		else {
			__CPROVER_assert(c2 >= 0 && (size_t)c1 + (size_t)c2 == n, "C05: chunked conversion consumes the same total");
			__CPROVER_assert(b.size == (nb + 7) / 8 && b.bits_unused == (int)((8 - (nb & 7)) & 7), "C05: chunked conversion yields the same number of bits");
			for(size_t i = 0; i < sizeof(exp); i++) if(i < (nb + 7) / 8) __CPROVER_assert(b.buf[i] == exp[i], "C05: chunked conversion yields the same bits");
		}
	}
	free(a.buf); free(b.buf);
}

VF_NATIVE_MAIN
