/* CHOICE over DER and unaligned PER (C01, C02, C03, C04, C07, C14): the real CHOICE_encode_der (with der_write_tags),
 * CHOICE_encode_uper, CHOICE_decode_uper and CHOICE_free run over a hand-laid descriptor of the shape asn1c emits:
 *      C ::= CHOICE { x [1] SV, y [3] SV, z [5] SV }        (three root alternatives: index in 2 bits, X.691 23.6)
 * Alternative type SV is a harness stub: DER = <tag> 01 v, PER = 8 bits; v = 0xFF cannot be encoded. */
#include <vf.h>
#include <vf_cb.h>
#include <asn_internal.h>
#include <constr_CHOICE.h>
#include "constr_CHOICE.c"

#ifndef VF_TAGGED
#define VF_TAGGED 0     /* 1: C ::= [0] EXPLICIT CHOICE {...} */
#endif

struct sv { uint8_t got; uint8_t v; };
struct C { int present; union { struct sv x; struct sv *y; struct sv z; } choice; asn_struct_ctx_t _asn_ctx; };
#define CTX(n) ((ber_tlv_tag_t)((n) << 2) | ASN_TAG_CLASS_CONTEXT)
static asn_TYPE_descriptor_t sv_td, C_td;
static asn_TYPE_operation_t sv_op;
static asn_TYPE_member_t C_elems[3];
static asn_CHOICE_specifics_t C_specs;
static asn_per_constraints_t C_per;
static const ber_tlv_tag_t C_tags[1] = { CTX(0) };
static int live;

static asn_enc_rval_t sv_der(const asn_TYPE_descriptor_t *td, const void *sptr, int tag_mode, ber_tlv_tag_t tag, asn_app_consume_bytes_f *cb, void *key) {
	asn_enc_rval_t er; const struct sv *s = (const struct sv *)sptr; uint8_t out[3];
	(void)tag_mode;
	er.failed_type = 0; er.structure_ptr = 0;
	out[0] = 0x80 | (uint8_t)(tag >> 2); out[1] = 1; out[2] = s->v;
	if(s->v == 0xFF || (cb && cb(out, 3, key) < 0)) { er.encoded = -1; er.failed_type = td; er.structure_ptr = sptr; return er; }
	er.encoded = 3;
	return er;
}
static asn_enc_rval_t sv_enc(const asn_TYPE_descriptor_t *td, const asn_per_constraints_t *ct, const void *sptr, asn_per_outp_t *po) {
	asn_enc_rval_t er; const struct sv *s = (const struct sv *)sptr;
	(void)ct;
	er.encoded = 0; er.failed_type = 0; er.structure_ptr = 0;
	if(s->v == 0xFF || per_put_few_bits(po, s->v, 8)) { er.encoded = -1; er.failed_type = td; er.structure_ptr = sptr; }
	return er;
}
static asn_dec_rval_t sv_dec(const asn_codec_ctx_t *c, const asn_TYPE_descriptor_t *td, const asn_per_constraints_t *ct, void **sptr, asn_per_data_t *pd) {
	asn_dec_rval_t rv; struct sv *s = (struct sv *)*sptr; int32_t v;
	(void)c; (void)td; (void)ct;
	rv.consumed = 0;
	if(!s) { s = (struct sv *)calloc(1, sizeof(*s)); *sptr = s; if(!s) { rv.code = RC_FAIL; return rv; } live++; }
	v = per_get_few_bits(pd, 8);
	if(v < 0) { rv.code = RC_WMORE; return rv; }
	s->v = (uint8_t)v; s->got = 1; rv.code = RC_OK; rv.consumed = 8;
	return rv;
}
static void sv_free(const asn_TYPE_descriptor_t *td, void *p, enum asn_struct_free_method m) {
	(void)td;
	if(!p) return;
	if(m == ASFM_FREE_EVERYTHING) { live--; free(p); }
	else if(m == ASFM_FREE_UNDERLYING_AND_RESET) memset(p, 0, sizeof(struct sv));
}
static void setup(void) {
	memset(&sv_op, 0, sizeof(sv_op)); sv_op.der_encoder = sv_der; sv_op.uper_encoder = sv_enc; sv_op.uper_decoder = sv_dec; sv_op.free_struct = sv_free;
	memset(&sv_td, 0, sizeof(sv_td)); sv_td.name = "SV"; sv_td.op = &sv_op;
	memset(C_elems, 0, sizeof(C_elems));
	C_elems[0].memb_offset = offsetof(struct C, choice.x); C_elems[0].tag = CTX(1); C_elems[0].tag_mode = -1; C_elems[0].type = &sv_td; C_elems[0].name = "x";
	C_elems[1].flags = ATF_POINTER; C_elems[1].memb_offset = offsetof(struct C, choice.y); C_elems[1].tag = CTX(3); C_elems[1].tag_mode = -1; C_elems[1].type = &sv_td; C_elems[1].name = "y";
	C_elems[2].memb_offset = offsetof(struct C, choice.z); C_elems[2].tag = CTX(5); C_elems[2].tag_mode = -1; C_elems[2].type = &sv_td; C_elems[2].name = "z";
	memset(&C_specs, 0, sizeof(C_specs)); C_specs.struct_size = sizeof(struct C); C_specs.ctx_offset = offsetof(struct C, _asn_ctx);
	C_specs.pres_offset = offsetof(struct C, present); C_specs.pres_size = sizeof(int); C_specs.ext_start = -1;
	memset(&C_per, 0, sizeof(C_per)); C_per.value.flags = APC_CONSTRAINED; C_per.value.range_bits = 2; C_per.value.effective_bits = 2; C_per.value.lower_bound = 0; C_per.value.upper_bound = 2;
	C_per.size.flags = APC_UNCONSTRAINED; C_per.size.range_bits = -1; C_per.size.effective_bits = -1;
	memset(&C_td, 0, sizeof(C_td)); C_td.name = "C"; C_td.elements = C_elems; C_td.elements_count = 3; C_td.specifics = &C_specs;
	C_td.encoding_constraints.per_constraints = &C_per;
#if VF_TAGGED
	C_td.tags = C_tags; C_td.tags_count = 1; C_td.all_tags = C_tags; C_td.all_tags_count = 1;
#endif
	live = 0;
}
static struct C val; static struct sv vy;
static int selected_ok(int present, int has_y) { return present >= 1 && present <= 3 && (present != 2 || has_y); }
static void inputs(int present, int has_y, uint8_t v) {
	memset(&val, 0, sizeof(val)); memset(&vy, 0, sizeof(vy));
	val.present = present;
	if(present == 1) val.choice.x.v = v;
	if(present == 2) { vy.v = v; val.choice.y = has_y ? &vy : 0; }
	if(present == 3) val.choice.z.v = v;
}
static unsigned bit(const unsigned char *p, size_t i) { return (p[i >> 3] >> (7 - (i & 7))) & 1; }
static unsigned bits_at(const unsigned char *p, size_t pos, int n) { unsigned v = 0; for(int j = 0; j < 8; j++) if(j < n) v = (v << 1) | bit(p, pos + j); return v; }

void h_CHOICE_encode_der(void) {
	VF_SCALAR(int, present); VF_SCALAR(int, has_y); VF_SCALAR(uint8_t, v); VF_SCALAR(long, fail_at);
	__CPROVER_assume(present >= 0 && present <= 4 && fail_at >= -1 && fail_at <= 4);
	setup(); inputs(present, has_y, v);
	vf_cb_fail_at = fail_at;
	asn_enc_rval_t er = CHOICE_encode_der(&C_td, &val, 0, 0, vf_cb, 0);
	VF_CANARY();
	if(!selected_ok(present, has_y) || v == 0xFF) { __CPROVER_assert(er.encoded == -1, "C07: no alternative selected, selected alternative absent or not encodable: clean failure"); return; }
	if(vf_cb_failed) { __CPROVER_assert(er.encoded == -1, "C07: a failing output callback makes the call fail"); return; }
	size_t off = VF_TAGGED ? 2 : 0;
	__CPROVER_assert(er.encoded == (ssize_t)(off + 3) && vf_cb_bytes == off + 3, "C02/C07: size of the encoding equals the bytes delivered");
	if(VF_TAGGED) __CPROVER_assert(vf_cb_log[0] == 0xA0 && vf_cb_log[1] == 3, "C02: the explicit tag wraps the alternative");
	__CPROVER_assert(vf_cb_log[off] == (0x80 | (2 * present - 1)) && vf_cb_log[off + 1] == 1 && vf_cb_log[off + 2] == v, "C02: the selected alternative with its own tag");
	asn_enc_rval_t es = CHOICE_encode_der(&C_td, &val, 0, 0, 0, 0);
	__CPROVER_assert(es.encoded == er.encoded, "C07: estimating reports the size that encoding delivers");
}

void h_CHOICE_uper_roundtrip(void) {
	VF_SCALAR(int, present); VF_SCALAR(int, has_y); VF_SCALAR(uint8_t, v);
	__CPROVER_assume(present >= 0 && present <= 4);
	setup(); inputs(present, has_y, v);
	asn_per_outp_t po; memset(&po, 0, sizeof(po)); po.buffer = po.tmpspace; po.nbits = 8 * sizeof(po.tmpspace); po.output = vf_cb;
	asn_enc_rval_t er = CHOICE_encode_uper(&C_td, 0, &val, &po);
	VF_CANARY();
	if(!selected_ok(present, has_y) || v == 0xFF) { __CPROVER_assert(er.encoded == -1, "C07: no alternative selected, selected alternative absent or not encodable: clean failure"); return; }
	__CPROVER_assert(er.encoded != -1, "C01: every value is encoded");
	__CPROVER_assert(per_put_aligned_flush(&po) == 0, "flush");
	__CPROVER_assert(vf_cb_bytes == 2, "C02: 2 index bits + 8 bits, padded to 2 octets");
	__CPROVER_assert(bits_at(vf_cb_log, 0, 2) == (unsigned)(present - 1) && bits_at(vf_cb_log, 2, 8) == v, "C02: index of the alternative in 2 bits, then the alternative");
	asn_per_data_t pd; memset(&pd, 0, sizeof(pd)); pd.buffer = vf_cb_log; pd.nbits = 8 * vf_cb_bytes;
	void *st = 0;
	asn_dec_rval_t rv = CHOICE_decode_uper(0, &C_td, 0, &st, &pd);
	struct C *c = (struct C *)st;
	__CPROVER_assert(rv.code == RC_OK && pd.moved == 10, "C01: the encoding is decoded, consuming its 10 bits");
	if(rv.code == RC_OK) __CPROVER_assert(c->present == present && (present == 1 ? c->choice.x.v == v : present == 2 ? c->choice.y->v == v : c->choice.z.v == v), "C01: decoding returns the value");
	CHOICE_free(&C_td, st, ASFM_FREE_EVERYTHING);
}

void h_CHOICE_decode_uper(void) {
	VF_BYTES(buf, 3); VF_SCALAR(size_t, nbits); VF_SCALAR(size_t, skip);
	__CPROVER_assume(skip <= 7 && nbits <= 24 && skip <= nbits);
	setup();
	asn_per_data_t pd; memset(&pd, 0, sizeof(pd)); pd.buffer = buf; pd.nboff = skip; pd.nbits = nbits;
	void *st = 0;
	asn_dec_rval_t rv = CHOICE_decode_uper(0, &C_td, 0, &st, &pd);
	VF_CANARY();
	__CPROVER_assert(rv.code == RC_OK || rv.code == RC_WMORE || rv.code == RC_FAIL, "C04: return code");
	size_t avail = nbits - skip;
	if(rv.code == RC_OK) {
		struct C *c = (struct C *)st; unsigned idx = bits_at(buf, skip, 2);
		__CPROVER_assert(avail >= 10 && idx <= 2, "C04: RC_OK only for a complete value with an index that names an alternative");
		__CPROVER_assert(c->present == (int)idx + 1, "C03: the alternative named by the index is selected");
		__CPROVER_assert((idx == 0 ? c->choice.x.v : idx == 1 ? c->choice.y->v : c->choice.z.v) == bits_at(buf, skip + 2, 8), "C03: and decoded");
	}
	if(st) __CPROVER_assert(((struct C *)st)->present >= 0 && ((struct C *)st)->present <= 3, "C04: the presence index names an alternative or none");
	CHOICE_free(&C_td, st, ASFM_FREE_EVERYTHING);
	__CPROVER_assert(live == 0, "C14: CHOICE_free releases the selected alternative exactly once");
}

/* extensible variant:  CX ::= CHOICE { x [1] SV, ..., y [3] SV, z [5] SV }  (one root alternative: index in 0 bits after the
 * extension bit; additions: normally small number, then an open type).  per_opentype.c is not linked: uper_open_type_get
 * is a harness stub with the decoder convention (the real one has its own obligations), so this entry checks what
 * CHOICE_decode_uper does with the index it reads: bounds of the member table, presence index, cleanup. */
#ifdef VF_CX
static int ot_code; static int ot_calls; static const asn_TYPE_descriptor_t *ot_td; static void **ot_sptr;
asn_dec_rval_t uper_open_type_get(const asn_codec_ctx_t *ctx, const asn_TYPE_descriptor_t *td, const asn_per_constraints_t *ct, void **sptr, asn_per_data_t *pd) {
	asn_dec_rval_t rv; (void)ctx; (void)ct; (void)pd;
	ot_calls++; ot_td = td; ot_sptr = sptr;
	rv.consumed = 0; rv.code = (enum asn_dec_rval_code_e)ot_code;
	if(rv.code == RC_OK) { struct sv *s = (struct sv *)*sptr; if(!s) { s = (struct sv *)calloc(1, sizeof(*s)); *sptr = s; if(!s) { rv.code = RC_FAIL; return rv; } live++; } s->got = 1; s->v = 0x5A; }
	return rv;
}
int uper_open_type_put(const asn_TYPE_descriptor_t *td, const asn_per_constraints_t *ct, const void *sptr, asn_per_outp_t *po) { (void)td; (void)ct; (void)sptr; (void)po; return -1; }
int uper_open_type_skip(const asn_codec_ctx_t *ctx, asn_per_data_t *pd) { (void)ctx; (void)pd; return -1; }
void h_CHOICE_decode_uper_ext(void) {
	VF_BYTES(buf, 3); VF_SCALAR(size_t, nbits); VF_SCALAR(int, code);
	__CPROVER_assume(nbits <= 24 && code >= 0 && code <= 2);
	setup();
	C_specs.ext_start = 1; C_per.value.flags = APC_CONSTRAINED | APC_EXTENSIBLE; C_per.value.range_bits = 0; C_per.value.effective_bits = 0; C_per.value.upper_bound = 0;
	ot_code = code; ot_calls = 0;
	/* guard object right behind the member table: a read past the table must not look like a member */
	asn_per_data_t pd; memset(&pd, 0, sizeof(pd)); pd.buffer = buf; pd.nbits = nbits;
	void *st = 0;
	asn_dec_rval_t rv = CHOICE_decode_uper(0, &C_td, 0, &st, &pd);
	VF_CANARY();
	__CPROVER_assert(rv.code == RC_OK || rv.code == RC_WMORE || rv.code == RC_FAIL, "C04: return code");
	if(st) {
		struct C *c = (struct C *)st;
		__CPROVER_assert(c->present >= 0 && c->present <= 3, "C04: the presence index names an alternative or none");
		if(ot_calls) {
			__CPROVER_assert(ot_calls == 1 && ot_td == &sv_td, "C03/C18: an addition is decoded as an open type of the alternative's own type");
			__CPROVER_assert(c->present == 2 || c->present == 3, "C03: an open type is only read for an alternative after the extension marker");
			__CPROVER_assert(ot_sptr == (c->present == 2 ? (void **)&c->choice.y : ot_sptr), "C03: into that alternative");
		}
	}
	if(nbits >= 8 && (buf[0] & 0x80) && (buf[0] & 0x40) == 0) {
		unsigned idx = (buf[0] >> 0) & 0x3F;   /* normally small number: 0 + 6 bits */
		if(idx >= 2) __CPROVER_assert(rv.code != RC_OK && ot_calls == 0, "C04: an extension index beyond the known alternatives is refused before anything is decoded");
	}
	CHOICE_free(&C_td, st, ASFM_FREE_EVERYTHING);
	__CPROVER_assert(live == 0, "C14: CHOICE_free releases the selected alternative exactly once");
}
#endif

VF_NATIVE_MAIN
