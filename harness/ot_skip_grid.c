/* bounded stand-in (native): uper_open_type_skip / uper_open_type_get on the real machine.  CBMC does not get through
 * uper_open_type_get_simple (bit-level copying of every fragment) within the time limit even for one fixed length, so the
 * C03 statement "an unknown extension addition is skipped whatever its length and contents" is executed natively:
 * every length 0..200 and 16383..16386 octets x every bit offset 0..7 x four content patterns (zeros, ones, 0x55, VERIF_SEED
 * random): the open type is skipped (return 0) and exactly length determinant + contents are consumed. */
#include <stdio.h>
#include <stdlib.h>
#include <string.h>
#include <stdint.h>
#include <asn_internal.h>
#include <per_opentype.h>
#include <per_support.h>

static unsigned long long evaluated, failed;
static void put_bits(unsigned char *s, size_t *pos, unsigned v, int n) { for(int i = n - 1; i >= 0; i--) { if((v >> i) & 1) s[*pos >> 3] |= (unsigned char)(0x80 >> (*pos & 7)); (*pos)++; } }
int main(void) {
	static unsigned char stream[20000], content[17000];
	const char *seed_s = getenv("VERIF_SEED");
	uint64_t x = seed_s ? strtoull(seed_s, 0, 10) * 0x9E3779B97F4A7C15ull + 1 : 88172645463325252ull;
	for(int pat = 0; pat < 4; pat++) for(size_t len = 0; len <= 16386; len = (len == 200 ? 16383 : len + 1)) for(size_t skip = 0; skip < 8; skip++) {
		for(size_t i = 0; i < len; i++) { x ^= x << 13; x ^= x >> 7; x ^= x << 17; content[i] = pat == 0 ? 0 : pat == 1 ? 0xFF : pat == 2 ? 0x55 : (unsigned char)x; }
		memset(stream, 0, sizeof(stream));
		size_t pos = skip, hdr;
		if(len < 128) put_bits(stream, &pos, (unsigned)len, 8);
		else if(len < 16384) { put_bits(stream, &pos, 0x8000u | (unsigned)len, 16); }
		else { put_bits(stream, &pos, 0xC1, 8); }      /* one 16K fragment, then the rest */
		hdr = pos - skip;
		size_t first = len < 16384 ? len : 16384;
		for(size_t i = 0; i < first; i++) put_bits(stream, &pos, content[i], 8);
		if(len >= 16384) { size_t rest = len - 16384; put_bits(stream, &pos, (unsigned)rest, 8); hdr += 8; for(size_t i = 0; i < rest; i++) put_bits(stream, &pos, content[16384 + i], 8); }
		asn_per_data_t pd; memset(&pd, 0, sizeof(pd)); pd.buffer = stream; pd.nboff = skip; pd.nbits = pos + 3;
		int r = uper_open_type_skip(0, &pd);
		evaluated++;
		if(r != 0 || pd.moved != hdr + 8 * len) { if(failed++ < 10) printf("VF-GRID: FAIL len=%zu bit-offset=%zu pattern=%d: return %d, consumed %zu bits of %zu\n", len, skip, pat, r, (size_t)pd.moved, hdr + 8 * len); }
	}
	printf("VF-GRID: evaluated %llu failed %llu\n", evaluated, failed); fflush(stdout);
	return failed ? 1 : 0;
}
