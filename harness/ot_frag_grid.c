/* bounded stand-in (native): UPER open types around the 16K fragmentation boundaries (X.691 10.9.3.8), where no unwinding
 * bound reaches.  Real uper_open_type_put / uper_open_type_get / uper_get_length / uper_put_length / per_put_many_bits /
 * per_get_many_bits, executed under ASan+UBSan, with a stub content type that is n arbitrary octets.
 *  (1) sizes 1..300, and m*16384 + {-2..2} for m = 1..5: the octets written are exactly the X.691 fragments (written down
 *      independently below: 11xxxxxx multipliers, largest first, then the remainder or a zero length), and reading them
 *      back gives the contents; bit offsets 0 and 3;
 *  (2) decoding hand-made valid fragment orders the encoder never produces (16K then 64K, 16K x 3 then 32K ...): same
 *      contents, no memory error (ASan);
 *  (3) C14/C07: the output callback fails at its j-th call, or the k-th allocation of the reader fails: the call fails and
 *      nothing is leaked (LeakSanitizer at exit). */
#include <stdio.h>
#include <stdlib.h>
#include <string.h>
#include <stdint.h>
#include <asn_internal.h>
#include <per_opentype.h>
#include <per_support.h>
#include <per_encoder.h>
/* the unit itself is compiled into this file with its allocator macros redirected, so that the k-th allocation can be made
 * to fail (mechanical macro redirection of MALLOC/REALLOC/CALLOC only) */
static long vf_alloc_count, vf_alloc_fail_at = -1;
static int vf_alloc_fails(void) { return vf_alloc_fail_at >= 0 && vf_alloc_count++ == vf_alloc_fail_at; }
static void *vf_malloc(size_t n) { return vf_alloc_fails() ? 0 : malloc(n); }
static void *vf_calloc(size_t a, size_t b) { return vf_alloc_fails() ? 0 : calloc(a, b); }
static void *vf_realloc(void *p, size_t n) { return vf_alloc_fails() ? 0 : realloc(p, n); }
#undef MALLOC
#undef CALLOC
#undef REALLOC
#define MALLOC(size) vf_malloc(size)
#define CALLOC(nmemb, size) vf_calloc(nmemb, size)
#define REALLOC(oldptr, size) vf_realloc(oldptr, size)
#include "per_opentype.c"

static unsigned long long evaluated, failed;
struct blob { size_t n; unsigned char *p; };
static asn_enc_rval_t blob_enc(const asn_TYPE_descriptor_t *td, const asn_per_constraints_t *ct, const void *sptr, asn_per_outp_t *po) {
	asn_enc_rval_t er; const struct blob *b = (const struct blob *)sptr; (void)ct;
	er.encoded = 0; er.failed_type = 0; er.structure_ptr = 0;
	if(per_put_many_bits(po, b->p, (int)(8 * b->n))) { er.encoded = -1; er.failed_type = td; er.structure_ptr = sptr; }
	return er;
}
static asn_dec_rval_t blob_dec(const asn_codec_ctx_t *c, const asn_TYPE_descriptor_t *td, const asn_per_constraints_t *ct, void **sptr, asn_per_data_t *pd) {
	asn_dec_rval_t rv; struct blob *b = (struct blob *)*sptr; (void)c; (void)td; (void)ct;
	b->n = 0;
	for(;;) { int32_t v = per_get_few_bits(pd, 8); if(v < 0) break; b->p[b->n++] = (unsigned char)v; }
	rv.code = RC_OK; rv.consumed = 8 * b->n;
	return rv;
}
static asn_TYPE_operation_t op; static asn_TYPE_descriptor_t td;
static unsigned char out[500000]; static size_t out_n;
static int collect(const void *p, size_t n, void *key) { (void)key; if(out_n + n > sizeof(out)) return -1; memcpy(out + out_n, p, n); out_n += n; return 0; }
static long cb_calls, cb_fail_at = -1; static int cb_failed_once;
static int collect_fail(const void *p, size_t n, void *key) { if(cb_fail_at >= 0 && cb_calls++ == cb_fail_at) { cb_failed_once = 1; return -1; } return collect(p, n, key); }
static void fail(const char *what, size_t n, size_t off) { if(failed++ < 10) printf("VF-GRID: FAIL size=%zu bit-offset=%zu %s\n", n, off, what); }
static void put_bits(unsigned char *s, size_t *pos, unsigned v, int n) { for(int i = n - 1; i >= 0; i--) { if((v >> i) & 1) s[*pos >> 3] |= (unsigned char)(0x80 >> (*pos & 7)); else s[*pos >> 3] &= (unsigned char)~(0x80 >> (*pos & 7)); (*pos)++; } }
static unsigned get_bits(const unsigned char *s, size_t *pos, int n) { unsigned v = 0; for(int i = 0; i < n; i++) { v = (v << 1) | ((s[*pos >> 3] >> (7 - (*pos & 7))) & 1); (*pos)++; } return v; }

/* X.691 10.9: expected stream for contents c[0..n) at bit position *pos of exp */
static void spec_fragments(unsigned char *exp, size_t *pos, const unsigned char *c, size_t n) {
	size_t done = 0;
	for(;;) {
		size_t left = n - done;
		if(left < 128) { put_bits(exp, pos, (unsigned)left, 8); for(size_t i = 0; i < left; i++) put_bits(exp, pos, c[done + i], 8); return; }
		if(left < 16384) { put_bits(exp, pos, 0x8000u | (unsigned)left, 16); for(size_t i = 0; i < left; i++) put_bits(exp, pos, c[done + i], 8); return; }
		size_t m = left / 16384; if(m > 4) m = 4;
		put_bits(exp, pos, 0xC0u | (unsigned)m, 8);
		for(size_t i = 0; i < m * 16384; i++) put_bits(exp, pos, c[done + i], 8);
		done += m * 16384;     /* and continue: a remainder of 0 is written as a zero length */
	}
}
static unsigned char content[400000], back[400000], exp[500000];
static void roundtrip(size_t n, size_t off) {
	struct blob b = { n, content }, r = { 0, back }; void *rp = &r;
	asn_per_outp_t po; memset(&po, 0, sizeof(po)); po.buffer = po.tmpspace; po.nbits = 8 * sizeof(po.tmpspace); po.output = collect;
	out_n = 0; evaluated++;
	if(off && per_put_few_bits(&po, 5, (int)off)) { fail("cannot write the leading bits", n, off); return; }
	if(uper_open_type_put(&td, 0, &b, &po) != 0 || per_put_aligned_flush(&po) != 0) { fail("uper_open_type_put failed", n, off); return; }
	size_t pos = 0; memset(exp, 0, (n + n / 16384 + 16)); if(off) put_bits(exp, &pos, 5, (int)off);
	spec_fragments(exp, &pos, content, n);
	if(out_n != (pos + 7) / 8 || memcmp(out, exp, out_n)) { fail("octets differ from the X.691 10.9 fragments", n, off); return; }
	asn_per_data_t pd; memset(&pd, 0, sizeof(pd)); pd.buffer = out; pd.nboff = off; pd.nbits = pos;
	asn_dec_rval_t rv = uper_open_type_get(0, &td, 0, &rp, &pd);
	if(rv.code != RC_OK || r.n != n || memcmp(back, content, n) || pd.moved != pos - off) fail("reading the open type back does not give the contents", n, off);
}
/* a valid stream with the fragments in the given order (multipliers m[0..k), then remainder rem) */
static void decode_order(const unsigned *m, size_t k, size_t rem) {
	size_t pos = 0, n = 0; evaluated++;
	unsigned char *s = (unsigned char *)calloc(1, 400000 + 64); struct blob r = { 0, back }; void *rp = &r;
	for(size_t j = 0; j < k; j++) { put_bits(s, &pos, 0xC0u | m[j], 8); for(size_t i = 0; i < m[j] * 16384u; i++) put_bits(s, &pos, content[n + i], 8); n += m[j] * 16384u; }
	put_bits(s, &pos, (unsigned)rem, 8); for(size_t i = 0; i < rem; i++) put_bits(s, &pos, content[n + i], 8); n += rem;
	unsigned char *exact = (unsigned char *)malloc((pos + 7) / 8); memcpy(exact, s, (pos + 7) / 8); free(s);     /* exact-size: ASan sees any over-read */
	asn_per_data_t pd; memset(&pd, 0, sizeof(pd)); pd.buffer = exact; pd.nbits = pos;
	asn_dec_rval_t rv = uper_open_type_get(0, &td, 0, &rp, &pd);
	if(rv.code != RC_OK || r.n != n || memcmp(back, content, n)) fail("a valid fragment order is not read back", n, k);
	free(exact);
}
int main(void) {
	const char *seed_s = getenv("VERIF_SEED");
	uint64_t x = seed_s ? strtoull(seed_s, 0, 10) * 0x9E3779B97F4A7C15ull + 1 : 88172645463325252ull;
	for(size_t i = 0; i < sizeof(content); i++) { x ^= x << 13; x ^= x >> 7; x ^= x << 17; content[i] = (unsigned char)x; }
	memset(&op, 0, sizeof(op)); op.uper_encoder = blob_enc; op.uper_decoder = blob_dec;
	memset(&td, 0, sizeof(td)); td.name = "Blob"; td.op = &op;
	for(size_t off = 0; off <= 3; off += 3) {
		for(size_t n = 1; n <= 300; n++) roundtrip(n, off);
		for(size_t m = 1; m <= 5; m++) for(int d = -2; d <= 2; d++) roundtrip(m * 16384 + d, off);
	}
	{ unsigned a[] = {1, 4}; decode_order(a, 2, 0); }
	{ unsigned a[] = {1, 4}; decode_order(a, 2, 7); }
	{ unsigned a[] = {1, 1, 1, 2}; decode_order(a, 4, 100); }
	{ unsigned a[] = {2, 1, 4, 1}; decode_order(a, 4, 0); }
	{ unsigned a[] = {4, 4, 4, 4}; decode_order(a, 4, 127); }
	/* (3) failures */
	{ static const size_t sizes[] = { 1, 200, 16384, 16385, 40000 };
	  for(size_t si = 0; si < sizeof(sizes) / sizeof(sizes[0]); si++) {
		for(long j = 0; j < 12; j++) {          /* j-th output call fails */
			struct blob b = { sizes[si], content };
			asn_per_outp_t po; memset(&po, 0, sizeof(po)); po.buffer = po.tmpspace; po.nbits = 8 * sizeof(po.tmpspace); po.output = collect_fail;
			out_n = 0; cb_calls = 0; cb_fail_at = j; evaluated++;
			int r = uper_open_type_put(&td, 0, &b, &po);
			if(r == 0) r = per_put_aligned_flush(&po);
			if(cb_failed_once && r == 0) fail("an output failure does not make the writer fail", sizes[si], (size_t)j);
			cb_fail_at = -1; cb_failed_once = 0;
		}
		for(long k = 0; k < 8; k++) {           /* k-th allocation of the reader fails */
			struct blob b = { sizes[si], content }, r = { 0, back }; void *rp = &r;
			asn_per_outp_t po; memset(&po, 0, sizeof(po)); po.buffer = po.tmpspace; po.nbits = 8 * sizeof(po.tmpspace); po.output = collect;
			out_n = 0; evaluated++;
			if(uper_open_type_put(&td, 0, &b, &po) != 0 || per_put_aligned_flush(&po) != 0) { fail("uper_open_type_put failed", sizes[si], 0); continue; }
			asn_per_data_t pd; memset(&pd, 0, sizeof(pd)); pd.buffer = out; pd.nbits = 8 * out_n;
			vf_alloc_count = 0; vf_alloc_fail_at = k;
			asn_dec_rval_t rv = uper_open_type_get(0, &td, 0, &rp, &pd);
			int hit = vf_alloc_count > k;
			vf_alloc_fail_at = -1;
			if(hit && rv.code == RC_OK) fail("a failed allocation does not make the reader fail", sizes[si], (size_t)k);
		}
	  } }
	printf("VF-GRID: evaluated %llu failed %llu\n", evaluated, failed); fflush(stdout);
	return failed ? 1 : 0;
}
