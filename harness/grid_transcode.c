/* bounded stand-in (native grid): C01 transcoding chain over the real SEQUENCE codecs: a value of
 *      T ::= SEQUENCE { a SV, b SV OPTIONAL, c SV }          (SV: harness stub with DER/BER, OER and UPER codecs of 2 octets)
 * is encoded with DER, decoded (BER), re-encoded with OER, decoded, re-encoded with unaligned PER, decoded, and encoded with
 * DER again: every decoder returns RC_OK consuming exactly what was produced, and the final DER octets equal the first ones.
 * Every pair of octet values for a (65536) x b absent/present x two c values, under ASan/UBSan/LSan. */
#include <stdio.h>
#include <stdlib.h>
#include <string.h>
#include <stdint.h>
#include <asn_internal.h>
#include <constr_SEQUENCE.h>
#include <per_support.h>

struct sv { uint8_t v[2]; };
struct T { struct sv a; struct sv *b; struct sv c; asn_struct_ctx_t _asn_ctx; };
#define CTX(n) ((ber_tlv_tag_t)((n) << 2) | ASN_TAG_CLASS_CONTEXT)
static asn_TYPE_descriptor_t sv_td, T_td; static asn_TYPE_operation_t sv_op; static asn_TYPE_member_t T_elems[3]; static asn_SEQUENCE_specifics_t T_specs;
static const ber_tlv_tag_t T_tags[1] = { (ber_tlv_tag_t)(16 << 2) | ASN_TAG_CLASS_UNIVERSAL };
static const int T_oms[1] = { 1 };
static asn_TYPE_tag2member_t T_tag2el[3];
static struct sv *get(void **sptr) { struct sv *s = (struct sv *)*sptr; if(!s) { s = (struct sv *)calloc(1, sizeof(*s)); *sptr = s; } return s; }
static asn_enc_rval_t sv_der(const asn_TYPE_descriptor_t *td, const void *sptr, int tm, ber_tlv_tag_t tag, asn_app_consume_bytes_f *cb, void *key) {
	asn_enc_rval_t er = {4, 0, 0}; const struct sv *s = (const struct sv *)sptr; uint8_t o[4] = { (uint8_t)(0x80 | (tag >> 2)), 2, s->v[0], s->v[1] }; (void)td; (void)tm;
	if(cb && cb(o, 4, key) < 0) er.encoded = -1; return er; }
static asn_dec_rval_t sv_ber(const asn_codec_ctx_t *c, const asn_TYPE_descriptor_t *td, void **sptr, const void *buf, size_t size, int tm) {
	asn_dec_rval_t rv = {RC_FAIL, 0}; struct sv *s = get(sptr); const uint8_t *p = (const uint8_t *)buf; (void)c; (void)td; (void)tm;
	if(!s) return rv; if(size < 4) { rv.code = RC_WMORE; return rv; } if(p[1] != 2) return rv;
	s->v[0] = p[2]; s->v[1] = p[3]; rv.code = RC_OK; rv.consumed = 4; return rv; }
static asn_enc_rval_t sv_oenc(const asn_TYPE_descriptor_t *td, const asn_oer_constraints_t *ct, const void *sptr, asn_app_consume_bytes_f *cb, void *key) {
	asn_enc_rval_t er = {2, 0, 0}; (void)td; (void)ct; if(cb(((const struct sv *)sptr)->v, 2, key) < 0) er.encoded = -1; return er; }
static asn_dec_rval_t sv_odec(const asn_codec_ctx_t *c, const asn_TYPE_descriptor_t *td, const asn_oer_constraints_t *ct, void **sptr, const void *buf, size_t size) {
	asn_dec_rval_t rv = {RC_FAIL, 0}; struct sv *s = get(sptr); (void)c; (void)td; (void)ct;
	if(!s) return rv; if(size < 2) { rv.code = RC_WMORE; return rv; } memcpy(s->v, buf, 2); rv.code = RC_OK; rv.consumed = 2; return rv; }
static asn_enc_rval_t sv_uenc(const asn_TYPE_descriptor_t *td, const asn_per_constraints_t *ct, const void *sptr, asn_per_outp_t *po) {
	asn_enc_rval_t er = {0, 0, 0}; const struct sv *s = (const struct sv *)sptr; (void)td; (void)ct;
	if(per_put_few_bits(po, s->v[0], 8) || per_put_few_bits(po, s->v[1], 8)) er.encoded = -1; return er; }
static asn_dec_rval_t sv_udec(const asn_codec_ctx_t *c, const asn_TYPE_descriptor_t *td, const asn_per_constraints_t *ct, void **sptr, asn_per_data_t *pd) {
	asn_dec_rval_t rv = {RC_FAIL, 0}; struct sv *s = get(sptr); int32_t x, y; (void)c; (void)td; (void)ct;
	if(!s) return rv; x = per_get_few_bits(pd, 8); y = per_get_few_bits(pd, 8); if(x < 0 || y < 0) { rv.code = RC_WMORE; return rv; }
	s->v[0] = (uint8_t)x; s->v[1] = (uint8_t)y; rv.code = RC_OK; rv.consumed = 16; return rv; }
static void sv_free(const asn_TYPE_descriptor_t *td, void *p, enum asn_struct_free_method m) { (void)td; if(p && m == ASFM_FREE_EVERYTHING) free(p); }
static void member(asn_TYPE_member_t *e, enum asn_TYPE_flags_e f, unsigned opt, unsigned off, ber_tlv_tag_t tag, const char *name) {
	memset(e, 0, sizeof(*e)); e->flags = f; e->optional = opt; e->memb_offset = off; e->tag = tag; e->tag_mode = -1; e->type = &sv_td; e->name = name; }
static unsigned char out[3][64]; static size_t out_n[3]; static int cur;
static int collect(const void *p, size_t n, void *key) { (void)key; if(out_n[cur] + n > 64) return -1; memcpy(out[cur] + out_n[cur], p, n); out_n[cur] += n; return 0; }
static unsigned long long evaluated, failed;
static void fail(const char *w, unsigned a0, unsigned a1, int hb) { if(failed++ < 10) printf("VF-GRID: FAIL a=%02x%02x has_b=%d %s\n", a0, a1, hb, w); }
int main(void) {
	memset(&sv_op, 0, sizeof(sv_op)); sv_op.der_encoder = sv_der; sv_op.ber_decoder = sv_ber; sv_op.oer_encoder = sv_oenc; sv_op.oer_decoder = sv_odec; sv_op.uper_encoder = sv_uenc; sv_op.uper_decoder = sv_udec; sv_op.free_struct = sv_free;
	memset(&sv_td, 0, sizeof(sv_td)); sv_td.name = "SV"; sv_td.op = &sv_op;
	member(&T_elems[0], ATF_NOFLAGS, 0, offsetof(struct T, a), CTX(0), "a"); member(&T_elems[1], ATF_POINTER, 1, offsetof(struct T, b), CTX(1), "b"); member(&T_elems[2], ATF_NOFLAGS, 0, offsetof(struct T, c), CTX(2), "c");
	for(int i = 0; i < 3; i++) { T_tag2el[i].el_tag = CTX(i); T_tag2el[i].el_no = (unsigned)i; }
	memset(&T_specs, 0, sizeof(T_specs)); T_specs.struct_size = sizeof(struct T); T_specs.ctx_offset = offsetof(struct T, _asn_ctx); T_specs.tag2el = T_tag2el; T_specs.tag2el_count = 3; T_specs.oms = T_oms; T_specs.roms_count = 1; T_specs.first_extension = -1;
	memset(&T_td, 0, sizeof(T_td)); T_td.name = "T"; T_td.tags = T_tags; T_td.tags_count = 1; T_td.all_tags = T_tags; T_td.all_tags_count = 1; T_td.elements = T_elems; T_td.elements_count = 3; T_td.specifics = &T_specs;
	for(unsigned a0 = 0; a0 < 256; a0++) for(unsigned a1 = 0; a1 < 256; a1++) for(int hb = 0; hb < 2; hb++) for(int cv = 0; cv < 2; cv++) {
		struct T v; struct sv vb = { { (uint8_t)a1, (uint8_t)a0 } }; memset(&v, 0, sizeof(v)); v.a.v[0] = (uint8_t)a0; v.a.v[1] = (uint8_t)a1; v.b = hb ? &vb : 0; v.c.v[0] = cv ? 0xFF : 0x00; v.c.v[1] = (uint8_t)(a0 ^ a1);
		evaluated++; out_n[0] = out_n[1] = out_n[2] = 0;
		cur = 0; asn_enc_rval_t e1 = SEQUENCE_encode_der(&T_td, &v, 0, 0, collect, 0);
		if(e1.encoded < 0 || (size_t)e1.encoded != out_n[0]) { fail("DER encoding failed or mis-sized", a0, a1, hb); continue; }
		void *s1 = 0; asn_dec_rval_t d1 = SEQUENCE_decode_ber(0, &T_td, &s1, out[0], out_n[0], 0);
		if(d1.code != RC_OK || d1.consumed != out_n[0]) { fail("BER decoding of the DER octets", a0, a1, hb); SEQUENCE_free(&T_td, s1, ASFM_FREE_EVERYTHING); continue; }
		cur = 1; asn_enc_rval_t e2 = SEQUENCE_encode_oer(&T_td, 0, s1, collect, 0);
		void *s2 = 0; asn_dec_rval_t d2 = SEQUENCE_decode_oer(0, &T_td, 0, &s2, out[1], out_n[1]);
		if(e2.encoded < 0 || (size_t)e2.encoded != out_n[1] || d2.code != RC_OK || d2.consumed != out_n[1]) fail("OER leg", a0, a1, hb);
		else {
			asn_per_outp_t po; memset(&po, 0, sizeof(po)); po.buffer = po.tmpspace; po.nbits = 8 * sizeof(po.tmpspace); po.output = collect; cur = 2;
			asn_enc_rval_t e3 = SEQUENCE_encode_uper(&T_td, 0, s2, &po);
			if(e3.encoded < 0 || per_put_aligned_flush(&po)) fail("UPER encoding", a0, a1, hb);
			else {
				asn_per_data_t pd; memset(&pd, 0, sizeof(pd)); pd.buffer = out[2]; pd.nbits = 8 * out_n[2];
				void *s3 = 0; asn_dec_rval_t d3 = SEQUENCE_decode_uper(0, &T_td, 0, &s3, &pd);
				if(d3.code != RC_OK) fail("UPER decoding", a0, a1, hb);
				else {
					unsigned char fin[64]; size_t fn = 0; unsigned char *save = out[0]; (void)save;
					memcpy(fin, out[0], out_n[0]); fn = out_n[0]; out_n[0] = 0; cur = 0;
					asn_enc_rval_t e4 = SEQUENCE_encode_der(&T_td, s3, 0, 0, collect, 0);
					if(e4.encoded < 0 || out_n[0] != fn || memcmp(out[0], fin, fn)) fail("the value changed along DER -> OER -> UPER -> DER", a0, a1, hb);
				}
				SEQUENCE_free(&T_td, s3, ASFM_FREE_EVERYTHING);
			}
		}
		SEQUENCE_free(&T_td, s1, ASFM_FREE_EVERYTHING); SEQUENCE_free(&T_td, s2, ASFM_FREE_EVERYTHING);
	}
	printf("VF-GRID: evaluated %llu failed %llu\n", evaluated, failed); fflush(stdout);
	return failed ? 1 : 0;
}
