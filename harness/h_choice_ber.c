/* CHOICE over BER (C03, C04, C05, C14): the real CHOICE_decode_ber (with the real ber_check_tags, ber_fetch_tag,
 * ber_fetch_length, ber_skip_length, _search4tag) and CHOICE_free run over a hand-laid descriptor of the shape asn1c emits.
 * Alternative types are harness stubs (primitive TLV with the expected tag and one contents octet, stateless).
 *   VF_V=0   C ::= CHOICE { x [1] SV, y [3] SV }                 untagged (tags_count = 0)
 *   VF_V=1   C ::= [0] EXPLICIT CHOICE { x [1] SV, y [3] SV }    one explicit tag: A0 L <alternative> (definite or indefinite)
 */
#include <vf.h>
#include <asn_internal.h>
#include <constr_CHOICE.h>
#include "constr_CHOICE.c"

#ifndef VF_V
#define VF_V 0
#endif
#ifndef VF_N
#define VF_N 8
#endif

struct sv { uint8_t got; uint8_t v; };
struct C { int present; union { struct sv x; struct sv *y; } choice; asn_struct_ctx_t _asn_ctx; };

#define CTX(n) ((ber_tlv_tag_t)((n) << 2) | ASN_TAG_CLASS_CONTEXT)
static asn_TYPE_descriptor_t svX_td, svY_td, C_td;
static asn_TYPE_operation_t sv_op;
static asn_TYPE_member_t C_elems[2];
static asn_CHOICE_specifics_t C_specs;
static const ber_tlv_tag_t C_tags[1] = { CTX(0) };
static asn_TYPE_tag2member_t C_tag2el[2];
static int live;

static asn_dec_rval_t sv_ber(const asn_codec_ctx_t *c, const asn_TYPE_descriptor_t *td, void **sptr, const void *buf, size_t size, int tag_mode) {
	asn_dec_rval_t rv; struct sv *s = (struct sv *)*sptr; const uint8_t *p = (const uint8_t *)buf;
	(void)c; (void)tag_mode;
	rv.consumed = 0;
	if(!s) { s = (struct sv *)calloc(1, sizeof(*s)); *sptr = s; if(!s) { rv.code = RC_FAIL; return rv; } live++; }
	if(size < 1) { rv.code = RC_WMORE; return rv; }
	if(p[0] != (td == &svX_td ? 0x81 : 0x83)) { rv.code = RC_FAIL; return rv; }
	if(size < 2) { rv.code = RC_WMORE; return rv; }
	if(p[1] != 1) { rv.code = RC_FAIL; return rv; }
	if(size < 3) { rv.code = RC_WMORE; return rv; }
	s->v = p[2]; s->got = 1;
	rv.code = RC_OK; rv.consumed = 3;
	return rv;
}
static void sv_free(const asn_TYPE_descriptor_t *td, void *p, enum asn_struct_free_method m) {
	(void)td;
	if(!p) return;
	if(m == ASFM_FREE_EVERYTHING) { live--; free(p); }
	else if(m == ASFM_FREE_UNDERLYING_AND_RESET) memset(p, 0, sizeof(struct sv));
}
static void setup(void) {
	memset(&sv_op, 0, sizeof(sv_op)); sv_op.ber_decoder = sv_ber; sv_op.free_struct = sv_free;
	memset(&svX_td, 0, sizeof(svX_td)); svX_td.name = "X"; svX_td.op = &sv_op; svY_td = svX_td; svY_td.name = "Y";
	memset(C_elems, 0, sizeof(C_elems));
	C_elems[0].memb_offset = offsetof(struct C, choice.x); C_elems[0].tag = CTX(1); C_elems[0].type = &svX_td; C_elems[0].name = "x";
	C_elems[1].flags = ATF_POINTER; C_elems[1].memb_offset = offsetof(struct C, choice.y); C_elems[1].tag = CTX(3); C_elems[1].type = &svY_td; C_elems[1].name = "y";
	C_tag2el[0].el_tag = CTX(1); C_tag2el[0].el_no = 0; C_tag2el[1].el_tag = CTX(3); C_tag2el[1].el_no = 1;
	memset(&C_specs, 0, sizeof(C_specs)); C_specs.struct_size = sizeof(struct C); C_specs.ctx_offset = offsetof(struct C, _asn_ctx);
	C_specs.pres_offset = offsetof(struct C, present); C_specs.pres_size = sizeof(int); C_specs.tag2el = C_tag2el; C_specs.tag2el_count = 2; C_specs.ext_start = -1;
	memset(&C_td, 0, sizeof(C_td)); C_td.name = "C"; C_td.elements = C_elems; C_td.elements_count = 2; C_td.specifics = &C_specs;
#if VF_V
	C_td.tags = C_tags; C_td.tags_count = 1; C_td.all_tags = C_tags; C_td.all_tags_count = 1;
#endif
	live = 0;
}
static int C_eq(const struct C *a, const struct C *b) {
	if(!a || !b) return a == b;
	if(a->present != b->present) return 0;
	if(a->present == 1) return a->choice.x.v == b->choice.x.v;
	if(a->present == 2) return a->choice.y && b->choice.y && a->choice.y->v == b->choice.y->v;
	return 1;
}
/* independent reading: [A0 03 | A0 80 ... 00 00] (81|83) 01 vv */
static int spec_valid(const uint8_t *p, size_t n, int *alt, uint8_t *v, size_t *total) {
	size_t i = 0; int indef = 0;
#if VF_V
	if(n < 2 || p[0] != 0xA0) return 0;
	if(p[1] == 0x80) indef = 1; else if(p[1] != 3) return 0;
	i = 2;
#endif
	if(i + 3 > n || (p[i] != 0x81 && p[i] != 0x83) || p[i + 1] != 1) return 0;
	*alt = p[i] == 0x81 ? 1 : 2; *v = p[i + 2]; i += 3;
	if(indef) { if(i + 2 > n || p[i] || p[i + 1]) return 0; i += 2; }
	*total = i;
	return 1;
}

void h_CHOICE_decode_ber(void) {
	VF_BYTES(buf, VF_N); VF_SCALAR(size_t, size);
	__CPROVER_assume(size <= VF_N);
	setup();
	unsigned char *in = (unsigned char *)malloc(size); __CPROVER_assume(in != 0);
	for(size_t i = 0; i < VF_N; i++) if(i < size) in[i] = buf[i];
	void *st = 0;
	asn_dec_rval_t rv = CHOICE_decode_ber(0, &C_td, &st, in, size, 0);
	VF_CANARY();
	__CPROVER_assert(rv.code == RC_OK || rv.code == RC_WMORE || rv.code == RC_FAIL, "C04: return code is RC_OK, RC_WMORE or RC_FAIL");
	__CPROVER_assert(rv.consumed <= size, "C04: consumed <= size");
	if(st) __CPROVER_assert(((struct C *)st)->present >= 0 && ((struct C *)st)->present <= 2, "C04: the presence index names an alternative or none");
	CHOICE_free(&C_td, st, ASFM_FREE_EVERYTHING);
	__CPROVER_assert(live == 0, "C14: CHOICE_free releases the selected alternative exactly once");
	free(in);
}

void h_CHOICE_decode_ber_chunked(void) {
	VF_BYTES(buf, VF_N); VF_SCALAR(size_t, size); VF_SCALAR(size_t, k);
	__CPROVER_assume(size <= VF_N && k <= size);
	setup();
	void *st1 = 0, *st2 = 0;
	asn_dec_rval_t one = CHOICE_decode_ber(0, &C_td, &st1, buf, size, 0);
	asn_dec_rval_t r1 = CHOICE_decode_ber(0, &C_td, &st2, buf, k, 0);
	VF_CANARY();
	int alt; uint8_t v; size_t total;
	if(spec_valid(buf, size, &alt, &v, &total)) {
		struct C *c = (struct C *)st1;
		__CPROVER_assert(one.code == RC_OK && one.consumed == total, "C03: a valid encoding is accepted with its full length consumed");
		if(one.code == RC_OK) __CPROVER_assert(c->present == alt && (alt == 1 ? c->choice.x.v == v : c->choice.y->v == v), "C03: the alternative named by the tag is selected and decoded");
	}
	__CPROVER_assert(r1.consumed <= k, "C05: consumed does not exceed the chunk");
	if(one.code == RC_OK && k < one.consumed)
		__CPROVER_assert(r1.code == RC_WMORE, "C05: a proper prefix of a valid encoding yields RC_WMORE");
	if(r1.code == RC_WMORE) {
		asn_dec_rval_t r2 = CHOICE_decode_ber(0, &C_td, &st2, buf + r1.consumed, size - r1.consumed, 0);
		__CPROVER_assert(r2.code == one.code, "C05: chunked decoding ends with the same return code as one-shot decoding");
		if(one.code != RC_FAIL) {
			__CPROVER_assert(r1.consumed + r2.consumed == one.consumed, "C05: chunked decoding consumes the same total");
			if(one.code == RC_OK) __CPROVER_assert(C_eq((struct C *)st1, (struct C *)st2), "C05: chunked decoding yields the same value");
		}
	} else {
		__CPROVER_assert(r1.code == one.code, "C05: a chunk that decides the outcome decides it as the whole buffer does");
		if(one.code == RC_OK) {
			__CPROVER_assert(r1.consumed == one.consumed, "C05: same consumed count");
			__CPROVER_assert(C_eq((struct C *)st1, (struct C *)st2), "C05: same value");
		}
	}
	CHOICE_free(&C_td, st1, ASFM_FREE_EVERYTHING); CHOICE_free(&C_td, st2, ASFM_FREE_EVERYTHING);
}

VF_NATIVE_MAIN
