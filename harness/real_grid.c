/* bounded stand-in (native): asn_double2REAL on the machine that actually runs (little-endian
 * byte-gather branch) against spec_der_real on a grid of bit patterns:
 * all 2^11 exponents x both signs x boundary mantissas, plus VERIF_SEED-driven random patterns,
 * and the round trip through asn_REAL2double. */
#include <stdio.h>
#include <stdlib.h>
#include <string.h>
#include <stdint.h>
#include <math.h>
#include <asn_internal.h>
#include <REAL.h>
#include <spec/real.h>

static unsigned long long evaluated, failed;
static uint64_t first_fail;

static void check(uint64_t bits) {
	double d, back; REAL_t st; struct spec_real sp = spec_der_real(bits);
	uint64_t bb;
	memcpy(&d, &bits, 8);
	memset(&st, 0, sizeof(st));
	evaluated++;
	if(ilogb(d) != spec_ilogb_bits(bits)) { if(!failed++) first_fail = bits; printf("VF-GRID: FAIL ilogb stub differs from libc at bits=%016llx\n", (unsigned long long)bits); return; }
	if(asn_double2REAL(&st, d) != 0) { if(!failed++) first_fail = bits; printf("VF-GRID: FAIL bits=%016llx conversion failed\n", (unsigned long long)bits); return; }
	if(st.size != sp.len || (sp.len && memcmp(st.buf, sp.oct, sp.len))) {
		if(!failed++) first_fail = bits;
		if(failed < 10) printf("VF-GRID: FAIL bits=%016llx octets differ from X.690 DER form\n", (unsigned long long)bits);
	} else if(asn_REAL2double(&st, &back) != 0) {
		if(!failed++) first_fail = bits;
		if(failed < 10) printf("VF-GRID: FAIL bits=%016llx cannot be converted back\n", (unsigned long long)bits);
	} else {
		memcpy(&bb, &back, 8);
		if(!(bb == bits || (isnan(d) && isnan(back)))) {
			if(!failed++) first_fail = bits;
			if(failed < 10) printf("VF-GRID: FAIL bits=%016llx round trip gives %016llx\n", (unsigned long long)bits, (unsigned long long)bb);
		}
	}
	free(st.buf);
}

int main(void) {
	static uint64_t mant[400]; size_t nm = 0, i; unsigned e, s, k;
	const char *seed_s = getenv("VERIF_SEED");
	uint64_t x = seed_s ? strtoull(seed_s, 0, 10) * 0x9E3779B97F4A7C15ull + 1 : 88172645463325252ull;
	const uint64_t F = 0xFFFFFFFFFFFFFull;
	mant[nm++] = 0; mant[nm++] = F;
	for(k = 0; k < 52; k++) {
		mant[nm++] = 1ull << k; mant[nm++] = ((1ull << k) + 1) & F; mant[nm++] = ((1ull << k) - 1) & F;
		mant[nm++] = (F << k) & F; mant[nm++] = F >> k; mant[nm++] = (0xAAAAAAAAAAAAAull >> k) | (1ull << k);
	}
	for(e = 0; e < 2048; e++) for(s = 0; s < 2; s++) for(i = 0; i < nm; i++)
		check(((uint64_t)s << 63) | ((uint64_t)e << 52) | mant[i]);
	for(i = 0; i < 300000; i++) { x ^= x << 13; x ^= x >> 7; x ^= x << 17; check(x); }
	printf("VF-GRID: evaluated %llu failed %llu first_fail %016llx\n", evaluated, failed, (unsigned long long)first_fail); fflush(stdout);
	return failed ? 1 : 0;
}
