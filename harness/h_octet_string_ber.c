/* OCTET STRING / BIT STRING over BER (incl. constructed forms): arbitrary bytes are decoded safely (C04), chunk restart (C05) */
#include <vf.h>
#include <asn_internal.h>
#include <OCTET_STRING.h>
#include <BIT_STRING.h>
#include "ber_tlv_tag.c"
#include "ber_tlv_length.c"
#include "ber_decoder.c"
#include "OCTET_STRING.c"
#include "BIT_STRING.c"
size_t vf_k;
#ifndef VF_NB
#define VF_NB 7
#endif

void h_OCTET_STRING_decode_ber(void) {
	VF_BYTES(buf, VF_NB); VF_SCALAR(size_t, size); VF_SCALAR(int, bits);
	__CPROVER_assume(size <= VF_NB);
#ifdef VF_BITS
	bits = VF_BITS;
#endif
	const asn_TYPE_descriptor_t *td = bits ? &asn_DEF_BIT_STRING : &asn_DEF_OCTET_STRING;
	void *sptr = 0;
	asn_codec_ctx_t ctx; memset(&ctx, 0, sizeof(ctx));
	asn_dec_rval_t rv = OCTET_STRING_decode_ber(&ctx, td, &sptr, buf, size, 0);
	VF_CANARY();
	__CPROVER_assert(rv.code == RC_OK || rv.code == RC_WMORE || rv.code == RC_FAIL, "C04: return code");
	__CPROVER_assert(rv.consumed <= size, "C04: consumed <= size");
	if(sptr) {
		OCTET_STRING_t *st = (OCTET_STRING_t *)sptr;
		if(rv.code == RC_OK) __CPROVER_assert(st->buf != 0 && st->size <= size && st->buf[st->size] == 0, "C04/C15: decoded string is NUL terminated and not longer than the input");
		if(rv.code == RC_OK && bits) __CPROVER_assert(((BIT_STRING_t *)sptr)->bits_unused >= 0 && ((BIT_STRING_t *)sptr)->bits_unused <= 7, "C04: decoded BIT STRING satisfies its own constraint");
		/* primitive definite form is accepted with its contents */
		if(!bits && size >= 2 && buf[0] == 0x04 && buf[1] < 0x80 && size >= 2u + buf[1]) __CPROVER_assert(rv.code == RC_OK && rv.consumed == 2u + buf[1] && st->size == buf[1], "C03: primitive definite OCTET STRING accepted");
		OCTET_STRING_free(td, sptr, ASFM_FREE_EVERYTHING);   /* --memory-leak-check: incl. the expectation stack */
	}
}

VF_NATIVE_MAIN
