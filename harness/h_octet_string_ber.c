/* OCTET STRING / BIT STRING over BER (incl. constructed forms): arbitrary bytes are decoded safely (C04), chunk restart (C05) */
#include <vf.h>
#include <asn_internal.h>
#include <OCTET_STRING.h>
#include <BIT_STRING.h>
#include "ber_tlv_tag.c"
#include "ber_tlv_length.c"
#include "ber_decoder.c"
#include "OCTET_STRING.c"
#include "BIT_STRING.c"
size_t vf_k;
#ifndef VF_NB
#define VF_NB 7
#endif

void h_OCTET_STRING_decode_ber(void) {
	VF_BYTES(buf, VF_NB); VF_SCALAR(size_t, size); VF_SCALAR(int, bits);
	__CPROVER_assume(size <= VF_NB);
#ifdef VF_BITS
	bits = VF_BITS;
#endif
	const asn_TYPE_descriptor_t *td = bits ? &asn_DEF_BIT_STRING : &asn_DEF_OCTET_STRING;
	void *sptr = 0;
	asn_codec_ctx_t ctx; memset(&ctx, 0, sizeof(ctx));
	asn_dec_rval_t rv = OCTET_STRING_decode_ber(&ctx, td, &sptr, buf, size, 0);
	VF_CANARY();
	__CPROVER_assert(rv.code == RC_OK || rv.code == RC_WMORE || rv.code == RC_FAIL, "C04: return code");
	__CPROVER_assert(rv.consumed <= size, "C04: consumed <= size");
	if(sptr) {
		OCTET_STRING_t *st = (OCTET_STRING_t *)sptr;
		if(rv.code == RC_OK) __CPROVER_assert(st->size <= size && ((st->buf == 0 && st->size == 0) || (st->buf != 0 && st->buf[st->size] == 0)), "C04/C15: decoded string is not longer than the input and NUL terminated (an empty constructed string may have no buffer at all)");
		if(rv.code == RC_OK && bits) __CPROVER_assert(((BIT_STRING_t *)sptr)->bits_unused >= 0 && ((BIT_STRING_t *)sptr)->bits_unused <= 7, "C04: decoded BIT STRING satisfies its own constraint");
		/* primitive definite form is accepted with its contents */
		if(!bits && size >= 2 && buf[0] == 0x04 && buf[1] < 0x80 && size >= 2u + buf[1]) __CPROVER_assert(rv.code == RC_OK && rv.consumed == 2u + buf[1] && st->size == buf[1], "C03: primitive definite OCTET STRING accepted");
		OCTET_STRING_free(td, sptr, ASFM_FREE_EVERYTHING);   /* --memory-leak-check: incl. the expectation stack */
	}
}

/* two-chunk restart of the (possibly constructed) string decoder equals one-shot decoding.  Not run under CBMC (the
 * one-shot entry already exceeds the time limit there); evaluated by the native grid harness/grid_os_ber.c. */
void h_OCTET_STRING_decode_ber_chunked(void) {
	VF_BYTES(buf, VF_NB); VF_SCALAR(size_t, size); VF_SCALAR(size_t, k); VF_SCALAR(int, bits);
	__CPROVER_assume(size <= VF_NB && k <= size);
	const asn_TYPE_descriptor_t *td = bits ? &asn_DEF_BIT_STRING : &asn_DEF_OCTET_STRING;
	void *s1 = 0, *s2 = 0;
	asn_codec_ctx_t ctx; memset(&ctx, 0, sizeof(ctx));
	asn_dec_rval_t one = OCTET_STRING_decode_ber(&ctx, td, &s1, buf, size, 0);
	asn_dec_rval_t r1 = OCTET_STRING_decode_ber(&ctx, td, &s2, buf, k, 0);
	VF_CANARY();
	__CPROVER_assert(one.consumed <= size && r1.consumed <= k, "C04/C05: consumed does not exceed what was presented");
	if(one.code == RC_OK && k < one.consumed) __CPROVER_assert(r1.code == RC_WMORE, "C05: a proper prefix of a valid encoding yields RC_WMORE");
	if(r1.code == RC_WMORE) {
		asn_dec_rval_t r2 = OCTET_STRING_decode_ber(&ctx, td, &s2, buf + r1.consumed, size - r1.consumed, 0);
		__CPROVER_assert(r2.code == one.code, "C05: chunked decoding ends with the same return code as one-shot decoding");
		if(one.code != RC_FAIL) __CPROVER_assert(r1.consumed + r2.consumed == one.consumed, "C05: chunked decoding consumes the same total");
	} else {
		__CPROVER_assert(r1.code == one.code, "C05: a chunk that decides the outcome decides it as the whole buffer does");
		if(one.code == RC_OK) __CPROVER_assert(r1.consumed == one.consumed, "C05: same consumed count");
	}
	if(one.code == RC_OK && s1 && s2) {
		OCTET_STRING_t *a = (OCTET_STRING_t *)s1, *b = (OCTET_STRING_t *)s2;
		__CPROVER_assert(a->size == b->size && (a->size == 0 || memcmp(a->buf, b->buf, a->size) == 0), "C05: chunked decoding yields the same string");
		if(bits) __CPROVER_assert(((BIT_STRING_t *)s1)->bits_unused == ((BIT_STRING_t *)s2)->bits_unused, "C05: and the same number of unused bits");
	}
	if(s1) OCTET_STRING_free(td, s1, ASFM_FREE_EVERYTHING);
	if(s2) OCTET_STRING_free(td, s2, ASFM_FREE_EVERYTHING);
}

VF_NATIVE_MAIN
