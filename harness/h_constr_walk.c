/* C08, container walkers: SEQUENCE_constraint, SET_constraint, SET_OF_constraint and CHOICE_constraint return 0 exactly
 * when every member that is present satisfies its constraint (member-level function when the member table has one,
 * otherwise the member type's own), and -1 when a mandatory member is absent.  Member constraint checkers are harness
 * stubs over a one-octet value (valid unless 0xFF); the descriptors are laid out by hand in the shape asn1c emits. */
#include <vf.h>
#include <asn_internal.h>
#include <constr_SEQUENCE.h>
#include <constr_SET.h>
#include <constr_SET_OF.h>
#include <constr_CHOICE.h>
#include <asn_SET_OF.h>

struct sv { uint8_t v; };
struct T { struct sv a; struct sv b; struct sv *c; struct sv d; asn_struct_ctx_t _asn_ctx; };
struct L { A_SET_OF(struct sv) list; asn_struct_ctx_t _asn_ctx; };
struct C { int present; union { struct sv x; struct sv *y; } choice; asn_struct_ctx_t _asn_ctx; };

static asn_TYPE_descriptor_t sv_td, T_td, L_td, C_td;
static asn_TYPE_member_t T_elems[4], L_elems[1], C_elems[2];
static asn_SEQUENCE_specifics_t T_specs;
static asn_SET_specifics_t S_specs;
static asn_SET_OF_specifics_t L_specs;
static asn_CHOICE_specifics_t C_specs;

static int type_check(const asn_TYPE_descriptor_t *td, const void *sptr, asn_app_constraint_failed_f *cb, void *key) {
	(void)td; (void)cb; (void)key;
	return ((const struct sv *)sptr)->v == 0xFF ? -1 : 0;
}
static int memb_check(const asn_TYPE_descriptor_t *td, const void *sptr, asn_app_constraint_failed_f *cb, void *key) {
	(void)td; (void)cb; (void)key;
	return ((const struct sv *)sptr)->v >= 0x80 ? -1 : 0;       /* a narrower member-level constraint */
}
static void member(asn_TYPE_member_t *e, enum asn_TYPE_flags_e flags, unsigned optional, unsigned off, asn_constr_check_f *mc, const char *name) {
	memset(e, 0, sizeof(*e)); e->flags = flags; e->optional = optional; e->memb_offset = off; e->type = &sv_td; e->name = name;
	e->encoding_constraints.general_constraints = mc;
}
static void setup(void) {
	memset(&sv_td, 0, sizeof(sv_td)); sv_td.name = "SV"; sv_td.encoding_constraints.general_constraints = type_check;
	member(&T_elems[0], ATF_NOFLAGS, 0, offsetof(struct T, a), 0, "a");
	member(&T_elems[1], ATF_NOFLAGS, 0, offsetof(struct T, b), memb_check, "b");
	member(&T_elems[2], ATF_POINTER, 1, offsetof(struct T, c), 0, "c");
	member(&T_elems[3], ATF_NOFLAGS, 0, offsetof(struct T, d), 0, "d");
	memset(&T_specs, 0, sizeof(T_specs)); T_specs.struct_size = sizeof(struct T); T_specs.ctx_offset = offsetof(struct T, _asn_ctx); T_specs.first_extension = -1;
	memset(&S_specs, 0, sizeof(S_specs)); S_specs.struct_size = sizeof(struct T); S_specs.ctx_offset = offsetof(struct T, _asn_ctx);
	memset(&T_td, 0, sizeof(T_td)); T_td.name = "T"; T_td.elements = T_elems; T_td.elements_count = 4; T_td.specifics = &T_specs;
	member(&L_elems[0], ATF_POINTER, 0, 0, 0, "");
	memset(&L_specs, 0, sizeof(L_specs)); L_specs.struct_size = sizeof(struct L); L_specs.ctx_offset = offsetof(struct L, _asn_ctx);
	memset(&L_td, 0, sizeof(L_td)); L_td.name = "L"; L_td.elements = L_elems; L_td.elements_count = 1; L_td.specifics = &L_specs;
	member(&C_elems[0], ATF_NOFLAGS, 0, offsetof(struct C, choice.x), memb_check, "x");
	member(&C_elems[1], ATF_POINTER, 0, offsetof(struct C, choice.y), 0, "y");
	memset(&C_specs, 0, sizeof(C_specs)); C_specs.struct_size = sizeof(struct C); C_specs.ctx_offset = offsetof(struct C, _asn_ctx);
	C_specs.pres_offset = offsetof(struct C, present); C_specs.pres_size = sizeof(int); C_specs.ext_start = -1;
	memset(&C_td, 0, sizeof(C_td)); C_td.name = "C"; C_td.elements = C_elems; C_td.elements_count = 2; C_td.specifics = &C_specs;
}
static int T_valid(const struct T *t) { return t->a.v != 0xFF && t->b.v < 0x80 && (!t->c || t->c->v != 0xFF) && t->d.v != 0xFF; }

void h_SEQUENCE_constraint(void) {
	VF_BYTES(vals, 4); VF_SCALAR(int, has_c); VF_SCALAR(int, as_set);
	setup();
	struct T t; struct sv vc; memset(&t, 0, sizeof(t));
	t.a.v = vals[0]; t.b.v = vals[1]; vc.v = vals[2]; t.d.v = vals[3]; t.c = has_c ? &vc : 0;
	int r;
	if(as_set) { T_td.specifics = &S_specs; r = SET_constraint(&T_td, &t, 0, 0); }
	else r = SEQUENCE_constraint(&T_td, &t, 0, 0);
	VF_CANARY();
	__CPROVER_assert((r == 0) == T_valid(&t), "C08: 0 exactly when every present member satisfies its constraint");
	__CPROVER_assert(r == 0 || r == -1, "C08: returns 0 or -1");
}
void h_SEQUENCE_constraint_absent(void) {
	VF_BYTES(vals, 4); VF_SCALAR(int, as_set);
	setup();
	T_elems[2].optional = 0;                  /* a mandatory member held by pointer */
	struct T t; memset(&t, 0, sizeof(t)); t.a.v = vals[0]; t.b.v = vals[1]; t.d.v = vals[3]; t.c = 0;
	__CPROVER_assume(t.a.v != 0xFF && t.b.v < 0x80);
	int r;
	if(as_set) { T_td.specifics = &S_specs; r = SET_constraint(&T_td, &t, 0, 0); }
	else r = SEQUENCE_constraint(&T_td, &t, 0, 0);
	VF_CANARY();
	__CPROVER_assert(r == -1, "C08: a missing mandatory member is reported");
}
void h_SET_OF_constraint(void) {
	VF_BYTES(vals, 3); VF_SCALAR(int, count); VF_SCALAR(int, member_level);
	__CPROVER_assume(count >= 0 && count <= 3);
	setup();
	if(member_level) L_elems[0].encoding_constraints.general_constraints = memb_check;
	struct sv e[3]; struct sv *arr[3]; struct L l; int valid = 1;
	for(int i = 0; i < 3; i++) { e[i].v = vals[i]; arr[i] = &e[i]; if(i < count && (member_level ? e[i].v >= 0x80 : e[i].v == 0xFF)) valid = 0; }
	memset(&l, 0, sizeof(l)); l.list.array = arr; l.list.count = count; l.list.size = 3;
	int r = SET_OF_constraint(&L_td, &l, 0, 0);
	VF_CANARY();
	__CPROVER_assert((r == 0) == valid, "C08: 0 exactly when every element satisfies the element constraint");
}
void h_CHOICE_constraint(void) {
	VF_BYTES(vals, 2); VF_SCALAR(int, present); VF_SCALAR(int, has_y);
	__CPROVER_assume(present >= 0 && present <= 3);
	setup();
	struct C c; struct sv vy; memset(&c, 0, sizeof(c)); vy.v = vals[1];
	c.present = present;
	if(present == 1) c.choice.x.v = vals[0];
	if(present == 2) c.choice.y = has_y ? &vy : 0;
	int r = CHOICE_constraint(&C_td, &c, 0, 0);
	VF_CANARY();
	int valid = present == 1 ? vals[0] < 0x80 : present == 2 ? (has_y && vy.v != 0xFF) : 0;
	__CPROVER_assert((r == 0) == valid, "C08: 0 exactly when an alternative is selected, present and satisfies its constraint");
}

VF_NATIVE_MAIN
