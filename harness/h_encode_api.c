/* C07: encoder API contract.  The real API functions and the real wrapper callbacks
 * (asn_application.c, der_encoder.c, oer_encoder.c, per_encoder.c, xer_encoder.c, asn_bit_data.c)
 * composed with a stub type whose encoders behave like any encoder obeying the operation-slot
 * convention: they hand up to 3 chunks of arbitrary size and content to the callback, stop with
 * ASN__ENCODE_FAILED when the callback fails or when they "decide" the value cannot be encoded,
 * and otherwise report the number of bytes (bits for PER are counted by the output stream). */
#include <vf.h>
#include <asn_internal.h>
#include <asn_application.h>
#include <per_encoder.h>
#include <errno.h>
#define VF_CB_CAP 1
#include <vf_cb.h>

#define NCH 3
static unsigned char payload[24];
static size_t chunk[NCH];
static int nchunks, fail_after;   /* fail_after: -1 = never, else the stub fails after that chunk */

static asn_enc_rval_t stub_bytes(const asn_TYPE_descriptor_t *td, const void *sptr, asn_app_consume_bytes_f *cb, void *key) {
	asn_enc_rval_t er = {0, 0, 0};
	size_t off = 0; int i;
	for(i = 0; i < NCH; i++) if(i < nchunks) {
		if(fail_after == i) ASN__ENCODE_FAILED;
		if(cb && cb(payload + off, chunk[i], key) < 0) ASN__ENCODE_FAILED;
		off += chunk[i];
	}
	er.encoded = off;
	ASN__ENCODED_OK(er);
}
static asn_enc_rval_t stub_der(const asn_TYPE_descriptor_t *td, const void *sptr, int tag_mode, ber_tlv_tag_t tag, asn_app_consume_bytes_f *cb, void *key) {
	(void)tag_mode; (void)tag; return stub_bytes(td, sptr, cb, key);
}
static asn_enc_rval_t stub_oer(const asn_TYPE_descriptor_t *td, const asn_oer_constraints_t *c, const void *sptr, asn_app_consume_bytes_f *cb, void *key) {
	(void)c; return stub_bytes(td, sptr, cb, key);
}
static asn_enc_rval_t stub_xer(const asn_TYPE_descriptor_t *td, const void *sptr, int il, enum xer_encoder_flags_e f, asn_app_consume_bytes_f *cb, void *key) {
	(void)il; (void)f; return stub_bytes(td, sptr, cb, key);
}
static int stub_print(const asn_TYPE_descriptor_t *td, const void *sptr, int il, asn_app_consume_bytes_f *cb, void *key) {
	(void)il; return stub_bytes(td, sptr, cb, key).encoded < 0 ? -1 : 0;
}
/* PER: chunk[i] is a number of bits (<= 31) taken from the payload */
static asn_enc_rval_t stub_uper(const asn_TYPE_descriptor_t *td, const asn_per_constraints_t *c, const void *sptr, asn_per_outp_t *po) {
	asn_enc_rval_t er = {0, 0, 0};
	int i; (void)c;
	for(i = 0; i < NCH; i++) if(i < nchunks) {
		if(fail_after == i) ASN__ENCODE_FAILED;
		if(per_put_few_bits(po, payload[i], (int)chunk[i])) ASN__ENCODE_FAILED;
	}
	ASN__ENCODED_OK(er);
}
static asn_TYPE_operation_t stub_op;
static asn_TYPE_descriptor_t stub_td;
static int value;

/* the obligations are split by syntax class to keep each query small:
 * VF_SYN_CLASS 0 = DER/BER/OER (bytes), 1 = UPER (bits), 2 = XER, plaintext, unsupported and invalid syntaxes */
#ifndef VF_SYN_CLASS
#define VF_SYN_CLASS 0
#endif
/* VF_SYN: the transfer syntax is a compile-time constant of the obligation (one obligation per value), so that
 * symbolic execution follows only that branch of asn_encode_internal */
#ifdef VF_SYN
#undef VF_SCALAR_SYN
#define VF_GET_SYN() VF_SYN
#else
#define VF_GET_SYN() syn_in
#endif
static int is_per(enum asn_transfer_syntax s);
static int is_bytes_syntax(enum asn_transfer_syntax s);
static int syn_in_class(enum asn_transfer_syntax s) {
	return VF_SYN_CLASS == 0 ? is_bytes_syntax(s) : VF_SYN_CLASS == 1 ? is_per(s) : (!is_bytes_syntax(s) && !is_per(s));
}
static size_t total;
static void setup(int per) {
	VF_BYTES(pl, 24); VF_SCALAR(size_t, c0); VF_SCALAR(size_t, c1); VF_SCALAR(size_t, c2); VF_SCALAR(int, nch); VF_SCALAR(int, fa);
	VF_SCALAR(int, have_der); VF_SCALAR(int, have_oer); VF_SCALAR(int, have_uper); VF_SCALAR(int, have_xer); VF_SCALAR(int, have_print);
	memcpy(payload, pl, 24);
	__CPROVER_assume(nch >= 0 && nch <= (per ? 1 : NCH) && fa >= -1 && fa < NCH);
	__CPROVER_assume(per ? (c0 <= 31 && c1 <= 31 && c2 <= 31) : (c0 <= 8 && c1 <= 8 && c2 <= 8));
	chunk[0] = c0; chunk[1] = c1; chunk[2] = c2; nchunks = nch; fail_after = fa;
	total = (nch > 0 ? c0 : 0) + (nch > 1 ? c1 : 0) + (nch > 2 ? c2 : 0);
	memset(&stub_op, 0, sizeof(stub_op)); memset(&stub_td, 0, sizeof(stub_td));
	if(have_der) stub_op.der_encoder = stub_der;
	if(have_oer) stub_op.oer_encoder = stub_oer;
	if(have_uper) stub_op.uper_encoder = stub_uper;
	if(have_xer) stub_op.xer_encoder = stub_xer;
	if(have_print) stub_op.print_struct = stub_print;
	stub_td.name = "T"; stub_td.xml_tag = "T"; stub_td.op = &stub_op;
}
static int stub_fails(void) { return fail_after >= 0 && fail_after < nchunks; }
static int is_bytes_syntax(enum asn_transfer_syntax s) { return s == ATS_DER || s == ATS_BER || s == ATS_BASIC_OER || s == ATS_CANONICAL_OER; }
static int have(enum asn_transfer_syntax s) {
	return (s == ATS_DER || s == ATS_BER) ? stub_op.der_encoder != 0 : (s == ATS_BASIC_OER || s == ATS_CANONICAL_OER) ? stub_op.oer_encoder != 0
	     : (s == ATS_UNALIGNED_BASIC_PER || s == ATS_UNALIGNED_CANONICAL_PER) ? stub_op.uper_encoder != 0
	     : (s == ATS_BASIC_XER || s == ATS_CANONICAL_XER) ? stub_op.xer_encoder != 0 : s == ATS_NONSTANDARD_PLAINTEXT ? stub_op.print_struct != 0 : 0;
}
static int is_per(enum asn_transfer_syntax s) { return s == ATS_UNALIGNED_BASIC_PER || s == ATS_UNALIGNED_CANONICAL_PER; }
static int is_text(enum asn_transfer_syntax s) { return s == ATS_BASIC_XER || s == ATS_CANONICAL_XER || s == ATS_NONSTANDARD_PLAINTEXT; }
/* bytes the encoding must have for this stub */
static size_t expected_size(enum asn_transfer_syntax s) {
	if(is_per(s)) return total == 0 ? 1 : (total + 7) / 8;          /* X.691 11.1 complete encoding: at least one octet */
	if(s == ATS_BASIC_XER) return total + 3 + 5;                     /* <T> ... </T>\n */
	if(s == ATS_CANONICAL_XER) return total + 3 + 4;                 /* <T> ... </T> */
	if(s == ATS_NONSTANDARD_PLAINTEXT) return total + 1;             /* trailing newline */
	return total;
}

/* asn_encode(): size accounting, EIO on callback failure, errno on every failure */
void h_asn_encode(void) {
	VF_SCALAR(int, syn_in); VF_SCALAR(long, fail_at); VF_SCALAR(int, null_td); VF_SCALAR(int, null_sptr); VF_SCALAR(int, null_cb);
	const int syn = VF_GET_SYN();
	enum asn_transfer_syntax s = (enum asn_transfer_syntax)syn;
	__CPROVER_assume(syn >= -1 && syn <= 12 && fail_at >= -1 && fail_at <= 8);
	setup(is_per(s));
	vf_cb_fail_at = fail_at;
	int key = 0;
	errno = 0;
	asn_enc_rval_t er = asn_encode(0, s, null_td ? 0 : &stub_td, null_sptr ? 0 : &value, null_cb ? 0 : vf_cb, &key);
	VF_CANARY();
	__CPROVER_assert(er.encoded >= -1, "C07: result is -1 or a size");
	if(er.encoded == -1) __CPROVER_assert(errno == EINVAL || errno == ENOENT || errno == EBADF || errno == EIO, "C07: every failure carries an errno");
	if(null_td || null_sptr || null_cb) __CPROVER_assert(er.encoded == -1 && errno == EINVAL, "C07: missing argument is -1/EINVAL");
	else if(vf_cb_failed) __CPROVER_assert(er.encoded == -1 && errno == EIO, "C07: a failing output callback makes the call return -1 with errno EIO");
	else if(!have(s)) __CPROVER_assert(er.encoded == -1 && errno == ENOENT, "C07: unsupported transfer syntax is -1/ENOENT");
	else if(stub_fails()) __CPROVER_assert(er.encoded == -1 && errno == EBADF && er.failed_type == &stub_td, "C07: unencodable value is -1/EBADF naming the type");
	else {
		__CPROVER_assert(er.encoded == (ssize_t)vf_cb_bytes, "C07: reported size equals the number of bytes delivered to the callback");
		__CPROVER_assert(er.encoded == (ssize_t)expected_size(s), "C07: size is what the type encoder produced (bits rounded up for PER, framing for text)");
	}
}

/* asn_encode_to_buffer(): same size for every buffer size, never writes beyond the buffer */
void h_asn_encode_to_buffer(void) {
	VF_SCALAR(int, syn_in); VF_SCALAR(size_t, b1); VF_SCALAR(size_t, b2);
	const int syn = VF_GET_SYN();
	enum asn_transfer_syntax s = (enum asn_transfer_syntax)syn;
	__CPROVER_assume(syn >= 0 && syn <= 12 && b1 <= 40 && b2 <= 40);
	setup(is_per(s));
	unsigned char *buf1 = (unsigned char *)malloc(b1), *buf2 = (unsigned char *)malloc(b2);
	__CPROVER_assume(buf1 && buf2);
	asn_enc_rval_t e1 = asn_encode_to_buffer(0, s, &stub_td, &value, buf1, b1);
	asn_enc_rval_t e2 = asn_encode_to_buffer(0, s, &stub_td, &value, buf2, b2);
	VF_CANARY();
	__CPROVER_assert(e1.encoded == e2.encoded, "C07: asn_encode_to_buffer reports the same full size for every buffer size");
	if(have(s) && !stub_fails()) {
		VF_SCALAR(size_t, q);
		__CPROVER_assert(e1.encoded == (ssize_t)expected_size(s), "C07: full size reported even when the buffer is too small");
		if(is_bytes_syntax(s) && (size_t)e1.encoded <= b1 && q < total) __CPROVER_assert(buf1[q] == payload[q], "C07: buffer holds the encoding when it fits");
	} else __CPROVER_assert(e1.encoded == -1, "C07: failure is -1 whatever the buffer");
	free(buf1); free(buf2);
}

/* asn_encode_to_new_buffer(): NULL or an exact, terminated buffer; no leak */
void h_asn_encode_to_new_buffer(void) {
	VF_SCALAR(int, syn_in); VF_SCALAR(size_t, q);
	const int syn = VF_GET_SYN();
	enum asn_transfer_syntax s = (enum asn_transfer_syntax)syn;
	__CPROVER_assume(syn >= 0 && syn <= 12);
	setup(is_per(s));
	asn_encode_to_new_buffer_result_t res = asn_encode_to_new_buffer(0, s, &stub_td, &value);
	VF_CANARY();
	if(res.buffer && res.result.encoded >= 0) {
		__CPROVER_assert(res.result.encoded == (ssize_t)expected_size(s), "C07: size of the new buffer's contents");
		__CPROVER_assert(((char *)res.buffer)[res.result.encoded] == 0, "C07: new buffer is NUL terminated right after the encoding");
		if(is_bytes_syntax(s) && q < total) __CPROVER_assert(((unsigned char *)res.buffer)[q] == payload[q], "C07: new buffer holds the encoding");
	}
	if(!have(s) || stub_fails()) __CPROVER_assert(res.result.encoded == -1, "C07: failure is -1");
#ifndef VF_FINDING_D23
#define VF_FINDING_D23 0
#endif
	if(VF_FINDING_D23 != 1 && res.result.encoded == -1) __CPROVER_assert(res.buffer == 0, "C07: asn_encode_to_new_buffer returns either the complete encoding or NULL (documented: buffer is NULL on failure)");
	free(res.buffer);      /* with --memory-leak-check: nothing else stays allocated */
}

/* the per-syntax buffer helpers */
void h_der_encode_to_buffer(void) {
	VF_SCALAR(size_t, b1); VF_SCALAR(size_t, q);
	__CPROVER_assume(b1 <= 40);
	setup(0); stub_op.der_encoder = stub_der;
	unsigned char *buf1 = (unsigned char *)malloc(b1);
	__CPROVER_assume(buf1);
	asn_enc_rval_t e = der_encode_to_buffer(&stub_td, &value, buf1, b1);
	VF_CANARY();
	if(stub_fails() || total > b1) __CPROVER_assert(e.encoded == -1, "C07: der_encode_to_buffer fails when the value or the buffer does not permit");
	else { __CPROVER_assert(e.encoded == (ssize_t)total, "C07: size"); if(q < total) __CPROVER_assert(buf1[q] == payload[q], "C07: contents"); }
	free(buf1);
}
void h_uper_encode_to_buffer(void) {
	VF_SCALAR(size_t, b1);
	__CPROVER_assume(b1 <= 40);
	setup(1); stub_op.uper_encoder = stub_uper;
	unsigned char *buf1 = (unsigned char *)malloc(b1);
	__CPROVER_assume(buf1);
	asn_enc_rval_t e = uper_encode_to_buffer(&stub_td, 0, &value, buf1, b1);
	VF_CANARY();
	if(stub_fails() || (total + 7) / 8 > b1) __CPROVER_assert(e.encoded == -1, "C07: uper_encode_to_buffer fails when the value or the buffer does not permit");
	else __CPROVER_assert(e.encoded == (ssize_t)total, "C07: uper_encode_to_buffer reports the number of bits");
	free(buf1);
}
void h_uper_encode_to_new_buffer(void) {
	setup(1); stub_op.uper_encoder = stub_uper;
	void *out = 0;
	ssize_t r = uper_encode_to_new_buffer(&stub_td, 0, &value, &out);
	VF_CANARY();
	if(stub_fails()) __CPROVER_assert(r == -1, "C07: failure is -1");
	if(r >= 0) { __CPROVER_assert(r == (ssize_t)(total == 0 ? 1 : (total + 7) / 8) && out != 0, "C07: octets of the complete encoding"); free(out); }
}

VF_NATIVE_MAIN
