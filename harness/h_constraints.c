/* C08: constraint validation: built-in alphabets, error buffer handling */
#include <vf.h>
#include <asn_internal.h>
#include <constraints.h>
#include <PrintableString.h>
#include <NumericString.h>
#include <VisibleString.h>
#include <IA5String.h>
#include <spec/alphabets.h>
size_t vf_k;
#include "constraints.c"
#include "PrintableString.c"
#include "NumericString.c"
#include "VisibleString.c"
#include "IA5String.c"

#ifndef VF_WHICH
#define VF_WHICH 0
#endif
#if VF_WHICH == 0
#define FN PrintableString_constraint
#define TD asn_DEF_PrintableString
#define IN_ALPHABET(c) SPEC_PRINTABLE(c)
#elif VF_WHICH == 1
#define FN NumericString_constraint
#define TD asn_DEF_NumericString
#define IN_ALPHABET(c) SPEC_NUMERIC(c)
#elif VF_WHICH == 2
#define FN VisibleString_constraint
#define TD asn_DEF_VisibleString
#define IN_ALPHABET(c) SPEC_VISIBLE(c)
#else
#define FN IA5String_constraint
#define TD asn_DEF_IA5String
#define IN_ALPHABET(c) SPEC_IA5(c)
#endif

/* strings of up to 6 characters: accepted exactly when every character is in the alphabet */
void h_alphabet_exact(void) {
	VF_BYTES(buf, 6); VF_SCALAR(size_t, size); VF_SCALAR(int, nullbuf);
	__CPROVER_assume(size <= 6);
	OCTET_STRING_t st; memset(&st, 0, sizeof(st)); st.buf = nullbuf ? (uint8_t *)0 : buf; st.size = size;
	int r = FN(&TD, &st, 0, 0);
	VF_CANARY();
	int ok = 1; size_t i;
	for(i = 0; i < 6; i++) if(i < size && !IN_ALPHABET(buf[i])) ok = 0;
	if(nullbuf) __CPROVER_assert(r == -1, "C08: absent value fails");
	else __CPROVER_assert(r == (ok ? 0 : -1), "C08: accepted if and only if every character is in the alphabet");
}

/* error reporting: bounded, terminated message naming a type, for every buffer length */
static int failing_constraint(const asn_TYPE_descriptor_t *td, const void *sptr, asn_app_constraint_failed_f *ctfailcb, void *app_key) {
	VF_SCALAR(int, fail);
	if(fail) { ASN__CTFAIL(app_key, td, sptr, "%s: failed (%s:%d)", td->name, __FILE__, __LINE__); return -1; }
	return 0;
}
void h_check_constraints_errbuf(void) {
	VF_SCALAR(size_t, cap); VF_SCALAR(int, noerrlen);
	__CPROVER_assume(cap <= 24);
	char *errbuf = (char *)malloc(cap ? cap : 1);
	__CPROVER_assume(errbuf);
	size_t errlen = cap;
	asn_TYPE_descriptor_t td; memset(&td, 0, sizeof(td)); td.name = "T"; td.encoding_constraints.general_constraints = failing_constraint;
	int v = 0;
	int r = asn_check_constraints(&td, &v, errbuf, noerrlen ? 0 : &errlen);
	VF_CANARY();
	__CPROVER_assert(r == 0 || r == -1, "C08: 0 or -1");
	if(r == 0 || noerrlen) __CPROVER_assert(errlen == cap, "C08: *errlen untouched unless a failure is reported");
	if(r == -1 && !noerrlen && cap > 0) __CPROVER_assert(errlen < cap && errbuf[errlen] == 0, "C08: message is NUL terminated inside the buffer and *errlen is its length");
	if(r == -1 && !noerrlen && cap == 0) __CPROVER_assert(errlen == 0, "C08: zero-length buffer is never written");
	free(errbuf);   /* the buffer object has exactly cap bytes: any write beyond it is a bounds violation */
}

VF_NATIVE_MAIN
