/* C09/C02 (compiler side): the PER and OER layout numbers the code generator computes from an effective range.
 * The real emit_single_member_* functions of libasn1compiler/asn1c_C.c are run; the numbers are observed through the
 * VLM_ASN1C_VERIF ghost outputs set right before they are printed.  Printing (OUT -> asn1c_compiled_output) and
 * expr_get_type have no body here: they return arbitrary values, which only makes the check harder. */
#include <vf.h>
#include "asn1c_internal.h"
#include "asn1c_C.c"

typedef asn1c_integer_t I;
#ifndef VF_FINDING_D18
#define VF_FINDING_D18 0
#endif

/* the terminal type of a built-in type is the type itself (stub for the fixer's reference resolver) */
asn1p_expr_t *asn1f_find_terminal_type_ex(asn1p_t *asn, asn1_namespace_t *ns, const asn1p_expr_t *e) { (void)asn; (void)ns; return (asn1p_expr_t *)e; }
static arg_t arg; static asn1p_expr_t expr;
static void mk_arg(void) { memset(&arg, 0, sizeof(arg)); memset(&expr, 0, sizeof(expr)); arg.expr = &expr; expr._lineno = 1; { VF_SCALAR(int, is_real); expr.expr_type = is_real ? ASN_BASIC_REAL : ASN_BASIC_INTEGER; } }

/* X.691 10.5.7 / 10.9.4: range bits = fewest bits for (ub - lb); effective (length) bits only when the whole range is below 64K */
void h_emit_PER_constraint(void) {
	VF_SCALAR(I, lb); VF_SCALAR(I, ub); VF_SCALAR(int, ext);
	__CPROVER_assume(lb <= ub && lb > -((I)1 << 100) && ub < ((I)1 << 100));
	asn1cnst_range_t r; memset(&r, 0, sizeof(r));
	r.left.type = ARE_VALUE; r.left.value = lb; r.right.type = ARE_VALUE; r.right.value = ub; r.extensible = ext ? 1 : 0;
	mk_arg();
	vlm_asn1c_verif_per_rbits = -2; vlm_asn1c_verif_per_ebits = -2;
	emit_single_member_PER_constraint(&arg, &r, 0, "X");
	VF_CANARY();
	if(vlm_asn1c_verif_per_rbits == -2) return;   /* expr_get_type said REAL: unconstrained entry, nothing computed */
	I range = ub - lb;            /* number of values minus one */
	long rb = vlm_asn1c_verif_per_rbits, eb = vlm_asn1c_verif_per_ebits;
	__CPROVER_assert(rb >= 0 && rb <= 102 && (rb == 0 ? range == 0 : ((range >> rb) == 0 && (range >> (rb - 1)) == 1)), "C09/C02: X.691 10.5.7.1 range_bits is the fewest bits that hold ub - lb");
	if(ub < 65536 && range < 65536) __CPROVER_assert(eb == (rb <= 16 ? rb : -1) && eb != -1, "C09/C02: X.691 10.9.4.1 a size range below 64K is encoded as a constrained whole number in range_bits bits");
	if(ub >= 65536) __CPROVER_assert(eb == -1, "C09/C02: X.691 10.9.4.2 an upper bound of 64K or more selects the general length form");
}

/* X.696 10.2 */
void h_emit_OER_constraint_value(void) {
	VF_SCALAR(I, lb); VF_SCALAR(I, ub);
	__CPROVER_assume(lb <= ub);
	VF_FINDING(VF_FINDING_D18, lb >= 0 && ub >= ((I)1 << 64));
	asn1cnst_range_t r; memset(&r, 0, sizeof(r));
	r.left.type = ARE_VALUE; r.left.value = lb; r.right.type = ARE_VALUE; r.right.value = ub;
	mk_arg();
	vlm_asn1c_verif_oer_width = -1; vlm_asn1c_verif_oer_positive = -1;
	emit_single_member_OER_constraint_value(&arg, &r);
	VF_CANARY();
	if(vlm_asn1c_verif_oer_width == -1) return;   /* REAL branch */
	long w = vlm_asn1c_verif_oer_width, p = vlm_asn1c_verif_oer_positive;
	I one = 1;
	if(lb >= 0) {
		long ew = ub <= 255 ? 1 : ub <= 65535 ? 2 : ub <= 4294967295ll ? 4 : ub <= (((one << 64)) - 1) ? 8 : 0;
		__CPROVER_assert(p == 1 && w == ew, "C09/C02: X.696 10.2 a): non-negative range: unsigned 1/2/4/8 octets by upper bound, else variable length");
	} else {
		long ew = (lb >= -128 && ub <= 127) ? 1 : (lb >= -32768 && ub <= 32767) ? 2 : (lb >= -2147483648ll && ub <= 2147483647ll) ? 4
		        : (lb >= -(one << 63) && ub <= (one << 63) - 1) ? 8 : 0;
		__CPROVER_assert(p == 0 && w == ew, "C09/C02: X.696 10.2 b): signed 1/2/4/8 octets by both bounds, else variable length");
	}
}

VF_NATIVE_MAIN
