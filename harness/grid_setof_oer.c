/* bounded stand-in (native grid): SET OF / SEQUENCE OF over OER with longer inputs and three chunks, beyond what the CBMC
 * obligations SET_OF_decode_oer.b9 / .chunk2 reach.  Assertions of harness/h_setof_oer.c (C04, C05 two chunks and three chunks
 * with an empty middle one, C14 ownership ledger, C15 element count) evaluated natively under ASan/UBSan/LSan on:
 * quantity field (01 n | 02 00 n | 00 | 03 00 00 n | 09 ..., n = 0..5) x element octets from {00, 01, 7f, ff} (every
 * string of at most VF_NBMAX octets) x every truncation x every split point. */
#define VF_GRID 1
#define VF_N 16
#include "h_setof_oer.c"
#ifndef VF_NBMAX
#define VF_NBMAX 6
#endif

static unsigned char in_buf[VF_N]; static size_t in_len;
static void run(size_t size, size_t k) {
	vf_grid_n = 0;
	vf_grid_tab[vf_grid_n++] = (struct vf_grid_in){ "buf", 0, in_buf, VF_N };
	vf_grid_tab[vf_grid_n++] = (struct vf_grid_in){ "size", size, 0, 0 };
	vf_grid_tab[vf_grid_n++] = (struct vf_grid_in){ "k", k, 0, 0 };
	if(k == 0) VF_GRID_RUN(h_SET_OF_decode_oer);
	VF_GRID_RUN(h_SET_OF_decode_oer_chunked);
	VF_GRID_RUN(h_SET_OF_decode_oer_chunked3);
}
static void all_cuts(void) { for(size_t size = 0; size <= in_len; size++) for(size_t k = 0; k <= size; k++) run(size, k); }
static void put(const unsigned char *p, size_t n) { for(size_t i = 0; i < n && in_len < VF_N; i++) in_buf[in_len++] = p[i]; }
int main(void) {
	static const unsigned char A[4] = { 0x00, 0x01, 0x7f, 0xff };
	for(int qf = 0; qf < 5; qf++) for(unsigned n = 0; n <= 5; n++) for(int nb = 0; nb <= VF_NBMAX; nb++) {
		long total = 1; for(int i = 0; i < nb; i++) total *= 4;
		for(long code = 0; code < total; code++) {
			memset(in_buf, 0, VF_N); in_len = 0;
			unsigned char q[10]; size_t qn = 0;
			if(qf == 0) { q[qn++] = 1; q[qn++] = (unsigned char)n; }
			else if(qf == 1) { q[qn++] = 2; q[qn++] = 0; q[qn++] = (unsigned char)n; }
			else if(qf == 2) { q[qn++] = 0; }
			else if(qf == 3) { q[qn++] = 3; q[qn++] = 0; q[qn++] = 0; q[qn++] = (unsigned char)n; }
			else { q[qn++] = 9; for(int i = 0; i < 8; i++) q[qn++] = 0; q[qn++] = (unsigned char)n; }
			if((qf == 2 || qf == 4) && n) continue;
			put(q, qn);
			long c = code; for(int i = 0; i < nb; i++) { put(&A[c % 4], 1); c /= 4; }
			all_cuts();
		}
	}
	return VF_GRID_SUMMARY();
}
