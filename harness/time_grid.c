/* bounded stand-in (native): the time helpers of C17 on the machine that actually runs, with the C library's calendar.
 * For every time zone of a fixed list (POSIX TZ strings, no zone database needed; includes negative and positive
 * offsets that are not whole hours) and every time_t of a grid (day steps over 1902..2105 with second offsets around
 * midnight, month and year ends, DST switches hit by the day steps; plus VERIF_SEED-driven random values):
 *   t -> localtime_r -> asn_time2GT(force_gmt=1) -> text is YYYYMMDDHHMMSSZ of gmtime_r(t) -> asn_GT2time(as_gmt) == t
 *   and, for 1960-01-01 <= t < 2060-01-01 (the library's two-digit-year window: YY >= 60 is 19YY), the same through
 *   asn_time2UT / asn_UT2time with the text YYMMDDHHMMSSZ. */
#include <stdio.h>
#include <stdlib.h>
#include <string.h>
#include <stdint.h>
#include <time.h>
#include <asn_internal.h>
#include <GeneralizedTime.h>
#include <UTCTime.h>

static unsigned long long evaluated, failed;
static void fail(const char *tz, time_t t, const char *what, const char *txt) {
	if(failed++ < 10) printf("VF-GRID: FAIL TZ=%s t=%lld %s [%s]\n", tz, (long long)t, what, txt ? txt : "");
}
static void check(const char *tz, time_t t) {
	struct tm lt, gm; char exp[32]; GeneralizedTime_t *gt; UTCTime_t *ut; time_t back;
	evaluated++;
	if(!localtime_r(&t, &lt) || !gmtime_r(&t, &gm)) return;
	if(gm.tm_year + 1900 < 1 || gm.tm_year + 1900 > 9999) return;
	gt = asn_time2GT(0, &lt, 1);
	if(!gt) { fail(tz, t, "asn_time2GT failed", 0); return; }
	snprintf(exp, sizeof(exp), "%04d%02d%02d%02d%02d%02dZ", gm.tm_year + 1900, gm.tm_mon + 1, gm.tm_mday, gm.tm_hour, gm.tm_min, gm.tm_sec);
	if(gt->size != (int)strlen(exp) || memcmp(gt->buf, exp, gt->size)) fail(tz, t, "GeneralizedTime text is not the canonical UTC form", (const char *)gt->buf);
	else { back = asn_GT2time(gt, 0, 1); if(back != t) fail(tz, t, "asn_GT2time does not return t", (const char *)gt->buf); }
	ASN_STRUCT_FREE(asn_DEF_GeneralizedTime, gt);
	if(t >= (time_t)-315619200LL && t < (time_t)2840140800LL) {     /* 1960-01-01 .. 2059-12-31 */
		ut = asn_time2UT(0, &lt, 1);
		if(!ut) { fail(tz, t, "asn_time2UT failed", 0); return; }
		if(ut->size != (int)strlen(exp) - 2 || memcmp(ut->buf, exp + 2, ut->size)) fail(tz, t, "UTCTime text is not the canonical form", (const char *)ut->buf);
		else { back = asn_UT2time(ut, 0, 1); if(back != t) fail(tz, t, "asn_UT2time does not return t", (const char *)ut->buf); }
		ASN_STRUCT_FREE(asn_DEF_UTCTime, ut);
	}
}
int main(void) {
	static const char *zones[] = { "UTC0", "PST8PDT,M3.2.0,M11.1.0", "CET-1CEST,M3.5.0,M10.5.0/3", "NST3:30NDT,M3.2.0,M11.1.0", "MART9:30", "IST-5:30", "NPT-5:45", "ACST-9:30ACDT,M10.1.0,M4.1.0/3", "LINT-14", "AoE12" };
	const char *seed_s = getenv("VERIF_SEED");
	uint64_t x = seed_s ? strtoull(seed_s, 0, 10) * 0x9E3779B97F4A7C15ull + 1 : 88172645463325252ull;
	static const int offs[] = { 0, 1, -1, 59, 3599, 3600, 43200, 86399 };
	for(size_t z = 0; z < sizeof(zones) / sizeof(zones[0]); z++) {
		setenv("TZ", zones[z], 1); tzset();
		for(long long day = -24837; day <= 49710; day++)        /* 1902-01-01 .. 2106-02-07 */
			for(size_t o = 0; o < sizeof(offs) / sizeof(offs[0]); o++) check(zones[z], (time_t)(day * 86400 + offs[o]));
		for(int i = 0; i < 20000; i++) { x ^= x << 13; x ^= x >> 7; x ^= x << 17; check(zones[z], (time_t)((int64_t)(x % 8000000000ull) - 3000000000ll)); }
	}
	printf("VF-GRID: evaluated %llu failed %llu\n", evaluated, failed); fflush(stdout);
	return failed ? 1 : 0;
}
