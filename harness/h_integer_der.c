/* INTEGER / NativeInteger over BER/DER: canonical contents, native-vs-wide equivalence, round trip */
#include <vf.h>
#include <asn_internal.h>
#include <INTEGER.h>
#include <NativeInteger.h>
#include <spec/x690.h>
#include <limits.h>
#define VF_CB_CAP 16
#include <vf_cb.h>
#include "ber_tlv_tag.c"
#include "ber_tlv_length.c"
#include "ber_decoder.c"
#include "der_encoder.c"
#include "asn_codecs_prim.c"
#include "INTEGER.c"
#include "NativeInteger.c"
size_t vf_k;

#define NI 10
/* C06: whatever the number of redundant leading octets, the DER contents are the minimal form of the same value */
void h_INTEGER_encode_der(void) {
	VF_BYTES(a, NI); VF_SCALAR(size_t, n);
	__CPROVER_assume(n >= 1 && n <= NI);
	INTEGER_t st; st.buf = a; st.size = n;
	int key = 0;
	asn_enc_rval_t er = INTEGER_encode_der(&asn_DEF_INTEGER, &st, 0, 0, vf_cb, &key);
	VF_CANARY();
	__CPROVER_assert(er.encoded == (ssize_t)vf_cb_bytes && er.encoded >= 3, "C07: size equals bytes delivered");
	__CPROVER_assert(vf_cb_log[0] == 0x02 && vf_cb_log[1] == er.encoded - 2, "C02: UNIVERSAL 2, primitive, short definite length");
	size_t L = vf_cb_log[1];
	const unsigned char *c = vf_cb_log + 2;
	__CPROVER_assert(L >= 1 && L <= n, "C02: at least one contents octet");
	__CPROVER_assert(L == 1 || !((c[0] == 0x00 && !(c[1] & 0x80)) || (c[0] == 0xFF && (c[1] & 0x80))), "C06/X.690 8.3.2: no redundant leading octet in the DER contents");
	{	/* the contents are the tail of the original octets and everything dropped was sign extension of it */
		size_t i; int ok = 1;
		for(i = 0; i < NI; i++) {
			if(i < L && c[i] != a[n - L + i]) ok = 0;
			if(i < n - L && a[i] != VF_FILL(a[n - L])) ok = 0;
		}
		__CPROVER_assert(ok, "C06: same abstract value: only sign-extension octets were removed");
	}
}

/* every long: DER of the native representation == DER of the wide representation == X.690 minimal form; decode returns the value */
void h_NativeInteger_der(void) {
	VF_SCALAR(long, v);
	int key = 0;
	asn_enc_rval_t er = NativeInteger_encode_der(&asn_DEF_NativeInteger, &v, 0, 0, vf_cb, &key);
	VF_CANARY();
	size_t L = spec_int_len(v);
	__CPROVER_assert(er.encoded == (ssize_t)(2 + L) && vf_cb_bytes == 2 + L, "C02/C07: tag, length and minimal contents");
	__CPROVER_assert(vf_cb_log[0] == 0x02 && vf_cb_log[1] == L && VF_OCT_EQ(vf_cb_log + 2, L, spec_int_octet, v), "C02/C13: native long encodes as the minimal two's complement INTEGER (same bytes as the wide representation)");
	long *back = 0;
	asn_codec_ctx_t ctx; memset(&ctx, 0, sizeof(ctx));
	asn_dec_rval_t rv = NativeInteger_decode_ber(&ctx, &asn_DEF_NativeInteger, (void **)&back, vf_cb_log, vf_cb_bytes, 0);
	if(back) {
		__CPROVER_assert(rv.code == RC_OK && rv.consumed == vf_cb_bytes && *back == v, "C01: decode(encode(v)) == v, all bytes consumed");
		free(back);
	}
}

/* arbitrary bytes into NativeInteger_decode_ber */
void h_NativeInteger_decode_ber(void) {
	VF_BYTES(buf, 14); VF_SCALAR(size_t, size); VF_SCALAR(int, uns);
	__CPROVER_assume(size <= 14);
	asn_INTEGER_specifics_t specs; memset(&specs, 0, sizeof(specs)); specs.field_width = sizeof(long); specs.field_unsigned = uns ? 1 : 0;
	asn_TYPE_descriptor_t td = asn_DEF_NativeInteger; td.specifics = &specs;
	long *out = 0;
	asn_codec_ctx_t ctx; memset(&ctx, 0, sizeof(ctx));
	asn_dec_rval_t rv = NativeInteger_decode_ber(&ctx, &td, (void **)&out, buf, size, 0);
	VF_CANARY();
	__CPROVER_assert((rv.code == RC_OK || rv.code == RC_WMORE || rv.code == RC_FAIL) && rv.consumed <= size, "C04: code and consumed <= size");
	if(rv.code != RC_OK) __CPROVER_assert(rv.consumed == 0, "C05: nothing consumed unless decoded");
	/* acceptance: the plain form 02 L <1..8 octets> (minimal or not) is always decoded with its value */
	if(!uns && size >= 2 && buf[0] == 0x02 && buf[1] >= 1 && buf[1] <= 8 && size >= 2u + buf[1] && out)
		__CPROVER_assert(rv.code == RC_OK && rv.consumed == 2u + buf[1] && *out == spec_int_decode(buf + 2, buf[1]), "C03: 02 L V is accepted with the value of the contents octets, non-minimal forms included");
	if(!uns && size >= 2 && buf[0] == 0x02 && buf[1] >= 1 && buf[1] <= 8 && size < 2u + buf[1] && out)
		__CPROVER_assert(rv.code == RC_WMORE, "C05: a truncated INTEGER wants more");
	free(out);
}

/* unsigned native field (INTEGER (0..MAX) -> unsigned long): DER must be the non-negative INTEGER, same bytes as the wide type */
#ifndef VF_FINDING_D21
#define VF_FINDING_D21 0
#endif
void h_NativeInteger_der_unsigned(void) {
	VF_SCALAR(unsigned long, v);
	VF_FINDING(VF_FINDING_D21, v > (unsigned long)LONG_MAX);
	asn_INTEGER_specifics_t specs; memset(&specs, 0, sizeof(specs)); specs.field_width = sizeof(long); specs.field_unsigned = 1;
	asn_TYPE_descriptor_t td = asn_DEF_NativeInteger; td.specifics = &specs;
	int key = 0;
	asn_enc_rval_t er = NativeInteger_encode_der(&td, &v, 0, 0, vf_cb, &key);
	VF_CANARY();
	size_t L = spec_uint_len(v);
	__CPROVER_assert(er.encoded == (ssize_t)(2 + L) && vf_cb_bytes == 2 + L, "C02/C13: tag, length and minimal non-negative contents (9 octets for values >= 2^63)");
	__CPROVER_assert(vf_cb_log[0] == 0x02 && vf_cb_log[1] == L && VF_OCT_EQ(vf_cb_log + 2, L, spec_uint_octet, v), "C02/C13: an unsigned native value encodes as the non-negative INTEGER (same bytes as asn_ulong2INTEGER + INTEGER_encode_der)");
	unsigned long *back = 0;
	asn_codec_ctx_t ctx; memset(&ctx, 0, sizeof(ctx));
	asn_dec_rval_t rv = NativeInteger_decode_ber(&ctx, &td, (void **)&back, vf_cb_log, vf_cb_bytes, 0);
	if(back) { __CPROVER_assert(rv.code == RC_OK && rv.consumed == vf_cb_bytes && *back == v, "C01: decode(encode(v)) == v"); free(back); }
}

VF_NATIVE_MAIN
