/* L0: PER support (X.691 11.3, 11.5, 11.6, 11.9) over the real bit I/O */
#include <vf.h>
#include <asn_internal.h>
#include <per_support.h>
#include <limits.h>
#define VF_CB_CAP 16
#include <vf_cb.h>
#include "asn_bit_data.c"
#include "per_support.c"

static asn_per_outp_t po;
static asn_per_data_t pd;
static int key;
static void out_init(uint32_t pre, int npre) {
	memset(&po, 0, sizeof(po));
	po.buffer = po.tmpspace; po.nbits = 8 * sizeof(po.tmpspace); po.output = vf_cb; po.op_key = &key;
	if(npre) (void)asn_put_few_bits(&po, pre, npre);      /* arbitrary alignment 0..7 */
}
static void in_init(int npre) {
	memset(&pd, 0, sizeof(pd));
	pd.buffer = vf_cb_log; pd.nbits = 8 * vf_cb_bytes;
	if(npre) (void)asn_get_few_bits(&pd, npre);
}
static unsigned bit_at(const unsigned char *p, size_t q) { return (p[q >> 3] >> (7 - (q & 7))) & 1u; }
/* n-bit big-endian field starting at bit position pos of the log */
static uint64_t field(size_t pos, int n) { uint64_t v = 0; int i; for(i = 0; i < 32; i++) if(i < n) v = (v << 1) | bit_at(vf_cb_log, pos + i); return v; }

/* ---- range rebasing: all long triples ---- */
void h_long_range(void) {
	VF_SCALAR(long, v); VF_SCALAR(long, lb); VF_SCALAR(long, ub);
	unsigned long out = 77; long back = 77;
	__CPROVER_assume(lb <= ub);
	int r = per_long_range_rebase(v, lb, ub, &out);
	VF_CANARY();
	if(v < lb || v > ub) __CPROVER_assert(r == -1, "C08/C02: value outside the range is refused");
	else {
		__CPROVER_assert(r == 0 && out == (unsigned long)v - (unsigned long)lb, "C02: X.691 11.5.4 offset from the lower bound, no overflow for any long");
		__CPROVER_assert(per_long_range_unrebase(out, lb, ub, &back) == 0 && back == v, "C01: unrebase(rebase(v)) == v");
	}
}
void h_long_unrebase(void) {
	VF_SCALAR(unsigned long, inp); VF_SCALAR(long, lb); VF_SCALAR(long, ub);
	long out = 77;
	__CPROVER_assume(lb <= ub);
	int r = per_long_range_unrebase(inp, lb, ub, &out);
	VF_CANARY();
	unsigned long range = (unsigned long)ub - (unsigned long)lb;
	if(inp > range) __CPROVER_assert(r == -1, "C04: an offset beyond the range is refused (decoder cannot be steered outside the constraint)");
	else __CPROVER_assert(r == 0 && out >= lb && out <= ub && (unsigned long)out - (unsigned long)lb == inp, "C01: lb + offset, no overflow for any long");
}

/* ---- length determinant 11.9: all lengths, all alignments ---- */
void h_uper_length(void) {
	VF_SCALAR(size_t, length); VF_SCALAR(uint32_t, pre); VF_SCALAR(int, npre);
	int need_eom = 7, repeat = 7;
	__CPROVER_assume(npre >= 0 && npre <= 7);
	out_init(pre, npre);
	ssize_t w = uper_put_length(&po, length, &need_eom);
	int fl = asn_put_aligned_flush(&po);
	VF_CANARY();
	__CPROVER_assert(w >= 0 && fl == 0, "C07: no failure without callback failure");
	if(length <= 127) {
		__CPROVER_assert(w == (ssize_t)length && need_eom == 0 && field(npre, 8) == length, "X.691 11.9.3.6: one octet, bit 8 zero");
	} else if(length < 16384) {
		__CPROVER_assert(w == (ssize_t)length && need_eom == 0 && field(npre, 16) == (0x8000 | length), "X.691 11.9.3.7: two octets, bits '10' then 14-bit length");
	} else {
		size_t m = (length >> 14) > 4 ? 4 : (length >> 14);
		__CPROVER_assert(w == (ssize_t)(m << 14) && field(npre, 8) == (0xC0 | m), "X.691 11.9.3.8: fragment of m*16K, m = 1..4");
		__CPROVER_assert(need_eom == (m == (length >> 14) && (length & 16383) == 0), "X.691 11.9.3.8.3: a trailing zero-length fragment is needed exactly for an exact multiple of 16K up to 64K");
	}
	in_init(npre);
	ssize_t g = uper_get_length(&pd, -1, 0, &repeat);
	__CPROVER_assert(g == w && repeat == (length >= 16384), "C01: uper_get_length(uper_put_length(n)) returns the fragment length and the repeat flag");
}
/* constrained length (effective bits 0..16) */
void h_uper_length_constrained(void) {
	VF_SCALAR(uint32_t, v); VF_SCALAR(int, ebits); VF_SCALAR(size_t, lb); VF_SCALAR(uint32_t, pre); VF_SCALAR(int, npre);
	int repeat = 7;
	__CPROVER_assume(npre >= 0 && npre <= 7 && ebits >= 0 && ebits <= 16 && lb <= (1u << 30));
	__CPROVER_assume(ebits == 0 ? v == 0 : v < (1u << ebits));
	out_init(pre, npre);
	int r = asn_put_few_bits(&po, v, ebits) || asn_put_aligned_flush(&po);
	in_init(npre);
	ssize_t g = uper_get_length(&pd, ebits, lb, &repeat);
	VF_CANARY();
	__CPROVER_assert(r == 0 && g == (ssize_t)(lb + v) && repeat == 0, "X.691 11.9.4.1: constrained length = lower bound + n-bit field");
}
/* arbitrary input to the length decoder */
void h_uper_get_length_any(void) {
	VF_BYTES(data, 4); VF_SCALAR(size_t, nbits); VF_SCALAR(size_t, nboff);
	int repeat = 7;
	memset(&pd, 0, sizeof(pd));
	pd.buffer = data; pd.nbits = nbits; pd.nboff = nboff;
	__CPROVER_assume(nbits <= 32 && nboff <= nbits);
	ssize_t g = uper_get_length(&pd, -1, 0, &repeat);
	VF_CANARY();
	__CPROVER_assert(g >= -1 && g <= 65536 && (repeat == 0 || (repeat == 1 && g >= 16384)), "C04/C15: decoded length is -1 or at most 64K per fragment");
	__CPROVER_assert(pd.nboff <= pd.nbits, "C04: stream invariant");
}

/* ---- normally small non-negative whole number 11.6 ---- */
void h_nsnnwn(void) {
	VF_SCALAR(int, n); VF_SCALAR(uint32_t, pre); VF_SCALAR(int, npre);
	__CPROVER_assume(npre >= 0 && npre <= 7);
	out_init(pre, npre);
	int r = uper_put_nsnnwn(&po, n);
	int fl = asn_put_aligned_flush(&po);
	VF_CANARY();
	if(n < 0 || n >= 256 * 65536) __CPROVER_assert(r == -1, "C07: value outside the supported range is refused");
	else {
		__CPROVER_assert(r == 0 && fl == 0, "C07: encodes");
		if(n <= 63) __CPROVER_assert(field(npre, 7) == (uint64_t)n, "X.691 11.6.1: bit 0 then 6-bit value");
		else {
			int nb = n < 256 ? 1 : n < 65536 ? 2 : 3;
			__CPROVER_assert(field(npre, 1) == 1 && field(npre + 1, 8) == (uint64_t)nb && field(npre + 9, 8 * nb) == (uint64_t)n,
				"X.691 11.6.2: bit 1, then the length in octets, then the value in the fewest octets");
		}
		in_init(npre);
		__CPROVER_assert(uper_get_nsnnwn(&pd) == n, "C01: uper_get_nsnnwn(uper_put_nsnnwn(n)) == n");
	}
}
/* normally small length 11.9.3.4 */
void h_nslength(void) {
	VF_SCALAR(size_t, length); VF_SCALAR(uint32_t, pre); VF_SCALAR(int, npre);
	__CPROVER_assume(npre >= 0 && npre <= 7);
	out_init(pre, npre);
	int r = uper_put_nslength(&po, length);
	int fl = asn_put_aligned_flush(&po);
	VF_CANARY();
	if(length == 0 || length >= 16384) __CPROVER_assert(r == -1, "C07: zero and >= 16K normally-small lengths are refused");
	else {
		__CPROVER_assert(r == 0 && fl == 0, "C07: encodes");
		if(length <= 64) __CPROVER_assert(field(npre, 7) == length - 1, "X.691 11.9.3.4: bit 0 then (n-1) in 6 bits");
		else __CPROVER_assert(field(npre, 1) == 1 && (length <= 127 ? field(npre + 1, 8) == length : field(npre + 1, 16) == (0x8000 | length)),
			"X.691 11.9.3.4: bit 1 then the general length determinant (11.9.3.6 / 11.9.3.7)");
		in_init(npre);
		__CPROVER_assert(uper_get_nslength(&pd) == (ssize_t)length, "C01: uper_get_nslength(uper_put_nslength(n)) == n");
	}
}

/* ---- constrained whole number 11.5: widths 0..64 ---- */
void h_cwn(void) {
	VF_SCALAR(unsigned long, v); VF_SCALAR(int, nbits); VF_SCALAR(uint32_t, pre); VF_SCALAR(int, npre);
	unsigned long back = 77;
#ifdef VF_CWN_WIDE
	__CPROVER_assume(npre == 0 && nbits >= 32 && nbits <= 64);
#else
	__CPROVER_assume(npre >= 0 && npre <= 7 && nbits >= 0 && nbits <= 31);
#endif
	out_init(pre, npre);
	int r = uper_put_constrained_whole_number_u(&po, v, nbits);
	int fl = asn_put_aligned_flush(&po);
	VF_CANARY();
	unsigned long vm = nbits == 64 ? v : (v & ((1ul << nbits) - 1));
	__CPROVER_assert(r == 0 && fl == 0 && vf_cb_bytes == ((size_t)npre + nbits + 7) / 8, "C07: exactly nbits bits are produced");
	if(nbits <= 32) __CPROVER_assert(field(npre, nbits) == vm, "X.691 11.5.6: the value as an nbits-bit big-endian field");
	else __CPROVER_assert(field(npre, nbits - 32) == (vm >> 32) && field(npre + nbits - 32, 32) == (vm & 0xFFFFFFFFul), "X.691 11.5.6: the value as an nbits-bit big-endian field (two halves)");
	in_init(npre);
	__CPROVER_assert(uper_get_constrained_whole_number(&pd, &back, nbits) == 0 && back == vm, "C01: get(put(v, nbits), nbits) == v");
}

VF_NATIVE_MAIN
