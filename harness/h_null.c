/* NULL type: wire format, and the encoder API convention on failure (C07) with the real type encoder */
#include <vf.h>
#include <asn_internal.h>
#include <asn_application.h>
#include <NULL.h>
#include <errno.h>
#define VF_CB_CAP 4
#include <vf_cb.h>
#ifndef VF_FINDING_D22
#define VF_FINDING_D22 0
#endif

void h_NULL_asn_encode(void) {
	VF_SCALAR(long, fail_at); VF_SCALAR(int, oer);
	__CPROVER_assume(fail_at >= -1 && fail_at <= 1);
	VF_FINDING(VF_FINDING_D22, fail_at == 0 && !oer);
	vf_cb_fail_at = fail_at;
	NULL_t v = 0; int key = 0;
	errno = 0;
	asn_enc_rval_t er = asn_encode(0, oer ? ATS_CANONICAL_OER : ATS_DER, &asn_DEF_NULL, &v, vf_cb, &key);
	VF_CANARY();
	if(vf_cb_failed) __CPROVER_assert(er.encoded == -1 && errno == EIO, "C07: a failing output callback makes asn_encode return -1 with errno EIO (no abort)");
	else if(oer) __CPROVER_assert(er.encoded == 0 && vf_cb_bytes == 0, "C02: X.696 NULL has no octets");
	else __CPROVER_assert(er.encoded == 2 && vf_cb_bytes == 2 && vf_cb_log[0] == 0x05 && vf_cb_log[1] == 0x00, "C02: X.690 8.8 NULL is 05 00");
}

VF_NATIVE_MAIN
