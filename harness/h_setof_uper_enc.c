/* SET OF over canonical unaligned PER (C02, C06, C07, C14): the real SET_OF_encode_uper (with SET_OF__encode_sorted, uper_encode,
 * _el_addbytes, _el_buf_cmp, uper_put_length, asn_put_many_bits) over a list of VF_COUNT stub elements of 8 bits each, no SIZE
 * constraint.  Expected (X.691 20.6, 22.1): length determinant, then the elements in ascending order of their encodings,
 * whatever their order in memory.  Output callback may fail; every allocation may fail. */
#include <vf.h>
#include <vf_cb.h>
#include <asn_internal.h>
#include <constr_SET_OF.h>
#include "constr_SET_OF.c"

#ifndef VF_COUNT
#define VF_COUNT 2
#endif
struct sv { uint8_t v; };
struct L { A_SET_OF(struct sv) list; asn_struct_ctx_t _asn_ctx; };
static asn_TYPE_descriptor_t sv_td, L_td;
static asn_TYPE_operation_t sv_op;
static asn_TYPE_member_t L_elems[1];
static asn_SET_OF_specifics_t L_specs;

static asn_enc_rval_t sv_enc(const asn_TYPE_descriptor_t *td, const asn_per_constraints_t *ct, const void *sptr, asn_per_outp_t *po) {
	asn_enc_rval_t er; const struct sv *s = (const struct sv *)sptr; (void)ct;
	er.encoded = 0; er.failed_type = 0; er.structure_ptr = 0;
	if(per_put_few_bits(po, s->v, 8)) { er.encoded = -1; er.failed_type = td; er.structure_ptr = sptr; }
	return er;
}
static void setup(void) {
	memset(&sv_op, 0, sizeof(sv_op)); sv_op.uper_encoder = sv_enc;
	memset(&sv_td, 0, sizeof(sv_td)); sv_td.name = "SV"; sv_td.op = &sv_op;
	memset(L_elems, 0, sizeof(L_elems)); L_elems[0].flags = ATF_POINTER; L_elems[0].type = &sv_td; L_elems[0].name = "";
	memset(&L_specs, 0, sizeof(L_specs)); L_specs.struct_size = sizeof(struct L); L_specs.ctx_offset = offsetof(struct L, _asn_ctx);
	memset(&L_td, 0, sizeof(L_td)); L_td.name = "L"; L_td.elements = L_elems; L_td.elements_count = 1; L_td.specifics = &L_specs;
}
void h_SET_OF_encode_uper(void) {
	VF_BYTES(vals, 3); VF_SCALAR(long, fail_at);
	__CPROVER_assume(fail_at >= -1 && fail_at <= 3);
	const int count = VF_COUNT;
	setup();
	struct sv e[3]; struct sv *arr[3]; struct L l;
	for(int i = 0; i < 3; i++) { e[i].v = vals[i]; arr[i] = &e[i]; }
	memset(&l, 0, sizeof(l)); l.list.array = arr; l.list.count = count; l.list.size = 3;
	uint8_t s[3] = { vals[0], vals[1], vals[2] }, t;
	if(count >= 2 && s[0] > s[1]) { t = s[0]; s[0] = s[1]; s[1] = t; }
	if(count >= 3 && s[1] > s[2]) { t = s[1]; s[1] = s[2]; s[2] = t; }
	if(count >= 3 && s[0] > s[1]) { t = s[0]; s[0] = s[1]; s[1] = t; }
	asn_per_outp_t po; memset(&po, 0, sizeof(po)); po.buffer = po.tmpspace; po.nbits = 8 * sizeof(po.tmpspace); po.output = vf_cb;
#ifdef VF_PREFILL
	/* start with the 32-octet scratch space all but full (31 zero octets pending), so that the encoder has to flush through the
	 * output callback while it runs and the callback gets a chance to fail inside it */
	po.buffer = po.tmpspace + 31; po.nbits = 8;
#define VF_OFF 31
#else
#define VF_OFF 0
#endif
	vf_cb_fail_at = fail_at;
#ifdef VF_SIZECT
	/* SIZE(VF_SIZECT), not extensible: no length determinant (X.691 20.5); any other number of elements cannot be encoded */
	static asn_per_constraints_t pc; memset(&pc, 0, sizeof(pc));
	pc.value.flags = APC_UNCONSTRAINED; pc.value.range_bits = -1; pc.value.effective_bits = -1;
	pc.size.flags = APC_CONSTRAINED; pc.size.range_bits = 0; pc.size.effective_bits = 0; pc.size.lower_bound = VF_SIZECT; pc.size.upper_bound = VF_SIZECT;
	asn_enc_rval_t er = SET_OF_encode_uper(&L_td, &pc, &l, &po);
	VF_CANARY();
	if(count != VF_SIZECT) { __CPROVER_assert(er.encoded == -1, "C07/C08: a list that violates its fixed SIZE constraint cannot be encoded"); return; }
	if(er.encoded == -1) return;
	{ int fl2 = per_put_aligned_flush(&po);
	  if(vf_cb_failed) { __CPROVER_assert(fl2 != 0, "C07: an output failure is reported"); return; }
	  __CPROVER_assert(fl2 == 0 && vf_cb_bytes == VF_OFF + (size_t)count, "C02: no length determinant for a fixed size");
	  for(int i = 0; i < 3; i++) if(i < count) __CPROVER_assert(vf_cb_log[VF_OFF + i] == s[i], "C06: elements in ascending order of their encodings");
	  return; }
#else
	asn_enc_rval_t er = SET_OF_encode_uper(&L_td, 0, &l, &po);
	VF_CANARY();
#endif
	if(er.encoded == -1) return;             /* allocation or output failure: clean failure, nothing leaked (leak check) */
	int fl = per_put_aligned_flush(&po);
	if(vf_cb_failed) { __CPROVER_assert(fl != 0 || er.encoded == -1, "C07: an output failure is reported"); return; }
	__CPROVER_assert(fl == 0 && vf_cb_bytes == VF_OFF + 1u + (size_t)count, "C02: length determinant + one octet per element");
	__CPROVER_assert(vf_cb_log[VF_OFF] == count, "C02: length determinant");
	for(int i = 0; i < 3; i++) if(i < count) __CPROVER_assert(vf_cb_log[VF_OFF + 1 + i] == s[i], "C06: canonical PER SET OF: elements in ascending order of their encodings, whatever their order in memory");
}
VF_NATIVE_MAIN
