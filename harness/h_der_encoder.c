/* DER tag/length writer (X.690 8.14 tagging: IMPLICIT / EXPLICIT chains) */
#include <vf.h>
#include <asn_internal.h>
#include <spec/x690.h>
#define VF_CB_CAP 40
#include <vf_cb.h>
#include "ber_tlv_tag.c"
#include "ber_tlv_length.c"
#include "der_encoder.c"
size_t vf_k;

void h_der_write_TL(void) {
	VF_SCALAR(ber_tlv_tag_t, tag); VF_SCALAR(ssize_t, len); VF_SCALAR(int, constructed); VF_SCALAR(long, fail_at); VF_SCALAR(int, nocb);
	__CPROVER_assume(len >= 0 && len <= RSSIZE_MAX && fail_at >= -1 && fail_at <= 0);
	vf_cb_fail_at = fail_at;
	int key = 0;
	ssize_t r = der_write_TL(tag, len, nocb ? 0 : vf_cb, &key, constructed);
	VF_CANARY();
	if(nocb) __CPROVER_assert(r == (ssize_t)(spec_tag_len(tag) + spec_der_len_len(len)), "C07: size computed without a callback is the size of T and L");
	else if(vf_cb_failed) __CPROVER_assert(r == -1, "C07: callback failure gives -1");
	else {
		ber_tlv_tag_t t2 = 0; ber_tlv_len_t l2 = -5;
		__CPROVER_assert(r == (ssize_t)vf_cb_bytes && r == (ssize_t)(spec_tag_len(tag) + spec_der_len_len(len)), "C07: return value equals bytes delivered");
		ssize_t a = ber_fetch_tag(vf_cb_log, vf_cb_bytes, &t2);
		__CPROVER_assert(a == (ssize_t)spec_tag_len(tag) && t2 == tag, "C02: identifier octets are the tag");
		__CPROVER_assert(((vf_cb_log[0] & 0x20) != 0) == (constructed != 0), "C02: X.690 8.1.2.5 P/C bit");
		__CPROVER_assert(ber_fetch_length(constructed, vf_cb_log + a, vf_cb_bytes - a, &l2) == (ssize_t)spec_der_len_len(len) && l2 == len, "C02: length octets are the DER length");
	}
}

#define NT 4
void h_der_write_tags(void) {
	VF_SCALAR(ber_tlv_tag_t, t0); VF_SCALAR(ber_tlv_tag_t, t1); VF_SCALAR(ber_tlv_tag_t, t2); VF_SCALAR(ber_tlv_tag_t, t3);
	VF_SCALAR(ber_tlv_tag_t, tag); VF_SCALAR(int, tags_count); VF_SCALAR(int, tag_mode); VF_SCALAR(int, last_form);
	VF_SCALAR(size_t, slen); VF_SCALAR(long, fail_at);
	ber_tlv_tag_t tags[NT] = { t0, t1, t2, t3 };
	asn_TYPE_descriptor_t sd;
	memset(&sd, 0, sizeof(sd));
	sd.name = "T"; sd.tags = tags;
#ifdef VF_TAGS_COUNT
	sd.tags_count = VF_TAGS_COUNT; tag_mode = VF_TAG_MODE;
#else
	sd.tags_count = tags_count;
#endif
#ifdef VF_TAGS_COUNT
	__CPROVER_assume(tags_count == VF_TAGS_COUNT && tag_mode == VF_TAG_MODE);
#endif
	__CPROVER_assume(tags_count >= 0 && tags_count <= NT && tag_mode >= -1 && tag_mode <= 1 && slen <= (1ull << 40) && fail_at >= -1 && fail_at <= 4);
	/* identifiers of at most 3 octets each (tag numbers below 2^14) keep the parse-back small */
	__CPROVER_assume((t0 >> 2) < (1u << 14) && (t1 >> 2) < (1u << 14) && (t2 >> 2) < (1u << 14) && (t3 >> 2) < (1u << 14) && (tag >> 2) < (1u << 14));
	int key = 0;
	tags_count = sd.tags_count;
	ssize_t r0 = der_write_tags(&sd, slen, tag_mode, last_form, tag, 0, 0);
	vf_cb_fail_at = fail_at;
	ssize_t r = der_write_tags(&sd, slen, tag_mode, last_form, tag, vf_cb, &key);
	VF_CANARY();
	/* expected tag chain, outermost first */
	ber_tlv_tag_t exp[NT + 1]; int n = 0, i;
	if(tag_mode == 0) { for(i = 0; i < NT; i++) if(i < tags_count) exp[n++] = tags[i]; }
	else { exp[n++] = tag; for(i = 0; i < NT; i++) if(i < tags_count && !(tag_mode == -1 && i == 0)) exp[n++] = tags[i]; }
	if(tags_count + 1 > 4) { __CPROVER_assert(r0 == -1 && r == -1, "C07: more than 3 tags in the descriptor is refused, no scratch array overflow"); return; }
	if(vf_cb_failed) { __CPROVER_assert(r == -1, "C07: callback failure gives -1"); return; }
	__CPROVER_assert(r >= 0 && r == r0 && r == (ssize_t)vf_cb_bytes, "C07: size without callback == size with callback == bytes delivered");
	/* parse the TL chain back: X.690 8.14: each outer length covers everything that follows plus the contents */
	size_t off = 0;
	for(i = 0; i < NT + 1; i++) if(i < n) {
		ber_tlv_tag_t tg = 0; ber_tlv_len_t ln = -5;
		ssize_t a = ber_fetch_tag(vf_cb_log + off, vf_cb_bytes - off, &tg);
		__CPROVER_assert(a > 0 && tg == exp[i], "C02: tag chain: EXPLICIT tag is added in front, IMPLICIT tag replaces the first tag");
		__CPROVER_assert(((vf_cb_log[off] & 0x20) != 0) == (last_form || i < n - 1), "C02: every tag but the last is constructed");
		ssize_t b = ber_fetch_length(1, vf_cb_log + off + a, vf_cb_bytes - off - a, &ln);
		__CPROVER_assert(b > 0 && ln >= 0 && (size_t)ln == (vf_cb_bytes - off - a - b) + slen, "C02: each length covers the inner TLs and the contents");
		off += a + b;
	}
	__CPROVER_assert(off == vf_cb_bytes, "C02: nothing but the TL chain is written");
}

VF_NATIVE_MAIN
