/* L0: OER length determinant (X.696 8.6) */
#include <vf.h>
#include <asn_internal.h>
#include <oer_support.h>
#define VF_CB_CAP 16
#include <vf_cb.h>
#include "oer_support.c"

#define VF_LBUF 132

static size_t spec_oer_len_len(uint64_t v) {
	return v <= 127 ? 1 : v < (1ull << 8) ? 2 : v < (1ull << 16) ? 3 : v < (1ull << 24) ? 4 : v < (1ull << 32) ? 5
	     : v < (1ull << 40) ? 6 : v < (1ull << 48) ? 7 : v < (1ull << 56) ? 8 : 9;
}
static uint8_t spec_oer_len_octet(uint64_t v, size_t i) {
	size_t n = spec_oer_len_len(v);
	if(n == 1) return (uint8_t)v;
	if(i == 0) return (uint8_t)(0x80 | (n - 1));
	return (uint8_t)(v >> (8 * (n - 1 - i)));
}

void h_oer_serialize_length(void) {
	VF_SCALAR(size_t, length);
	VF_SCALAR(long, fail_at);
	__CPROVER_assume(fail_at >= -1 && fail_at <= 1);
	vf_cb_fail_at = fail_at;
	int key = 0;
	ssize_t r = oer_serialize_length(length, vf_cb, &key);
	VF_CANARY();
	size_t n = spec_oer_len_len(length);
	__CPROVER_assert(vf_cb_calls == 1 && vf_cb_key_seen == &key, "C07: one callback invocation with the caller's key");
	if(vf_cb_failed) __CPROVER_assert(r == -1, "C07: callback failure makes the encoder return -1");
	else {
		__CPROVER_assert(r == (ssize_t)vf_cb_bytes, "C07: reported size equals bytes delivered to the callback");
		__CPROVER_assert(r == (ssize_t)n, "C02: X.696 8.6 length determinant has the fewest octets");
		__CPROVER_assert(vf_cb_log[0] == spec_oer_len_octet(length, 0) && (n <= 1 || vf_cb_log[1] == spec_oer_len_octet(length, 1))
			&& (n <= 2 || vf_cb_log[2] == spec_oer_len_octet(length, 2)) && (n <= 3 || vf_cb_log[3] == spec_oer_len_octet(length, 3))
			&& (n <= 4 || vf_cb_log[4] == spec_oer_len_octet(length, 4)) && (n <= 5 || vf_cb_log[5] == spec_oer_len_octet(length, 5))
			&& (n <= 6 || vf_cb_log[6] == spec_oer_len_octet(length, 6)) && (n <= 7 || vf_cb_log[7] == spec_oer_len_octet(length, 7))
			&& (n <= 8 || vf_cb_log[8] == spec_oer_len_octet(length, 8)), "C02: X.696 8.6 short form <= 127, else 0x80+n and n big-endian octets");
		if(length <= RSIZE_MAX) {
			size_t back = 7;
			__CPROVER_assert(oer_fetch_length(vf_cb_log, n, &back) == (ssize_t)n && back == length, "C01: oer_fetch_length(oer_serialize_length(len)) == len");
		}
	}
}

void h_oer_fetch_length(void) {
	VF_BYTES(buf, VF_LBUF);
	VF_SCALAR(size_t, size);
	__CPROVER_assume(size <= VF_LBUF);
	size_t len = 0x5a5a5a5a;
	ssize_t r = oer_fetch_length(buf, size, &len);
	VF_CANARY();
	unsigned n = buf[0] & 0x7F, i;
	unsigned __int128 acc = 0; int ovf = 0;
	for(i = 0; i < 127; i++) if(i < n && 1 + n <= size) { if(acc >> 64) ovf = 1; else acc = (acc << 8) | buf[1 + i]; }
	__CPROVER_assert(r >= -1 && (r <= 0 || (size_t)r <= size), "C04: consumed <= size");
	if(size == 0) __CPROVER_assert(r == 0, "C05: empty input wants more");
	else if(!(buf[0] & 0x80)) __CPROVER_assert(r == 1 && len == buf[0], "X.696 8.6.3 short form");
	else if(1 + n > size) __CPROVER_assert(r == 0, "C05: incomplete length determinant wants more");
	else if(!ovf && acc <= (unsigned __int128)RSIZE_MAX) __CPROVER_assert(r == (ssize_t)(1 + n) && len == (size_t)acc, "C03: every long form (leading zero octets included) is accepted with its value");
	else __CPROVER_assert(r == -1, "C04: length above RSIZE_MAX is refused");
}

void h_oer_fetch_length_prefix(void) {
	VF_BYTES(buf, VF_LBUF);
	VF_SCALAR(size_t, size);
	VF_SCALAR(size_t, cut);
	__CPROVER_assume(size <= VF_LBUF && cut <= VF_LBUF);
	size_t len = 0, len2 = 0;
	ssize_t r = oer_fetch_length(buf, size, &len);
	ssize_t r2 = oer_fetch_length(buf, cut, &len2);
	VF_CANARY();
	if(r > 0 && cut < (size_t)r) __CPROVER_assert(r2 == 0, "C05: a proper prefix of the length determinant yields 'want more'");
	if(r > 0 && cut >= (size_t)r) __CPROVER_assert(r2 == r && len2 == len, "C05: bytes after the determinant do not matter");
}

VF_NATIVE_MAIN
