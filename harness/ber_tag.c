/* L0: ber_tlv_tag_serialize (X.690 8.1.2) and the inverse pair with ber_fetch_tag */
#include <vf.h>
#include <asn_internal.h>
#include <ber_tlv_tag.h>
#include <spec/x690.h>
#include "ber_tlv_tag.c"
size_t vf_k;

void h_ber_tlv_tag_serialize(void) {
	VF_SCALAR(ber_tlv_tag_t, tag);
	VF_SCALAR(size_t, size);
	uint8_t buf[8] = { 0xEE, 0xEE, 0xEE, 0xEE, 0xEE, 0xEE, 0xEE, 0xEE };
	__CPROVER_assume(size <= 8);
	size_t r = ber_tlv_tag_serialize(tag, buf, size);
	VF_CANARY();
	size_t n = spec_tag_len(tag);
	__CPROVER_assert(r == n, "C07/C02: reported size is the X.690 size whatever the buffer size");
	if(size >= n) {
		__CPROVER_assert(VF_OCT_EQ(buf, n, spec_tag_octet, tag), "C02: X.690 8.1.2 identifier octets (minimal high-tag-number form)");
		{ ber_tlv_tag_t back = 0; __CPROVER_assert(ber_fetch_tag(buf, n, &back) == (ssize_t)n && back == tag, "C01: ber_fetch_tag(ber_tlv_tag_serialize(tag)) == tag"); }
	}
	__CPROVER_assert((size >= 8 || buf[size < 8 ? size : 7] == 0xEE) && (n >= 8 || size < n || buf[n] == 0xEE), "C07: no write beyond min(size, needed)");
}

VF_NATIVE_MAIN
