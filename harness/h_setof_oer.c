/* SET OF / SEQUENCE OF over OER (C04, C05, C14, C15): the real SET_OF_decode_oer, asn_set_add and SET_OF_free run over
 * a hand-laid descriptor whose element type is a harness stub (2-octet restartable value, RC_FAIL on 0xFF).
 * Checked: report consistency, memory safety, ownership of every element and of the element under construction
 * (ctx->ptr) after any outcome incl. allocation failure, element count bounded by the input, chunked == one-shot. */
#include <vf.h>
#include <asn_internal.h>
#include <constr_SET_OF.h>
#include "constr_SET_OF_oer.c"

#ifndef VF_N
#define VF_N 8
#endif

struct sv { uint8_t got; uint8_t v[2]; };
struct L { A_SET_OF(struct sv) list; asn_struct_ctx_t _asn_ctx; };

static asn_TYPE_descriptor_t sv_td, L_td;
static asn_TYPE_operation_t sv_op;
static asn_TYPE_member_t L_elems[1];
static asn_SET_OF_specifics_t L_specs;
static int live_elems;          /* ghost: stub values allocated and not yet released */

static asn_dec_rval_t sv_oer(const asn_codec_ctx_t *c, const asn_TYPE_descriptor_t *td, const asn_oer_constraints_t *ct, void **sptr, const void *buf, size_t size) {
	asn_dec_rval_t rv; struct sv *s = (struct sv *)*sptr; const uint8_t *p = (const uint8_t *)buf;
	(void)c; (void)td; (void)ct;
	rv.consumed = 0;
	if(!s) { s = (struct sv *)calloc(1, sizeof(*s)); *sptr = s; if(!s) { rv.code = RC_FAIL; return rv; } live_elems++; }
	if(s->got < 1 && size > rv.consumed) { s->v[0] = p[rv.consumed]; s->got = 1; rv.consumed++; }
	if(s->got == 1 && size > rv.consumed) { s->v[1] = p[rv.consumed]; s->got = 2; rv.consumed++; }
	if(s->got < 2) { rv.code = RC_WMORE; return rv; }
	rv.code = (s->v[0] == 0xFF) ? RC_FAIL : RC_OK;
	return rv;
}
static void sv_free(const asn_TYPE_descriptor_t *td, void *p, enum asn_struct_free_method m) {
	(void)td;
	if(!p) return;
	if(m == ASFM_FREE_EVERYTHING) { live_elems--; free(p); }
	else if(m == ASFM_FREE_UNDERLYING_AND_RESET) memset(p, 0, sizeof(struct sv));
}
static void setup(void) {
	memset(&sv_op, 0, sizeof(sv_op)); sv_op.oer_decoder = sv_oer; sv_op.free_struct = sv_free;
	memset(&sv_td, 0, sizeof(sv_td)); sv_td.name = "SV"; sv_td.op = &sv_op;
	memset(L_elems, 0, sizeof(L_elems));
	L_elems[0].flags = ATF_POINTER; L_elems[0].type = &sv_td; L_elems[0].name = "";
	memset(&L_specs, 0, sizeof(L_specs)); L_specs.struct_size = sizeof(struct L); L_specs.ctx_offset = offsetof(struct L, _asn_ctx);
	memset(&L_td, 0, sizeof(L_td)); L_td.name = "L"; L_td.elements = L_elems; L_td.elements_count = 1; L_td.specifics = &L_specs;
	live_elems = 0;
}
static int L_eq(const struct L *x, const struct L *y) {
	if(!x || !y) return x == y;
	if(x->list.count != y->list.count) return 0;
	for(int i = 0; i < VF_N / 2; i++) if(i < x->list.count) {
		const struct sv *a = x->list.array[i], *b = y->list.array[i];
		if(a->v[0] != b->v[0] || a->v[1] != b->v[1]) return 0;
	}
	return 1;
}

void h_SET_OF_decode_oer(void) {
	VF_BYTES(buf, VF_N); VF_SCALAR(size_t, size);
	__CPROVER_assume(size <= VF_N);
	setup();
	unsigned char *in = (unsigned char *)malloc(size); __CPROVER_assume(in != 0);
	for(size_t i = 0; i < VF_N; i++) if(i < size) in[i] = buf[i];
	void *st = 0;
	asn_dec_rval_t rv = SET_OF_decode_oer(0, &L_td, 0, &st, in, size);
	VF_CANARY();
	__CPROVER_assert(rv.code == RC_OK || rv.code == RC_WMORE || rv.code == RC_FAIL, "C04: return code is RC_OK, RC_WMORE or RC_FAIL");
	__CPROVER_assert(rv.consumed <= size, "C04: consumed <= size");
	if(st) {
		struct L *l = (struct L *)st;
		__CPROVER_assert(l->list.count >= 0 && (size_t)l->list.count * 2 <= rv.consumed, "C15: the number of elements held is bounded by the input consumed");
		__CPROVER_assert(live_elems == l->list.count + (l->_asn_ctx.ptr ? 1 : 0), "C14: every element allocated is owned by the list or is the element under construction");
	} else __CPROVER_assert(live_elems == 0, "C14: nothing allocated without a structure");
	SET_OF_free(&L_td, st, ASFM_FREE_EVERYTHING);       /* with --memory-leak-check and the double-free check of free() */
	__CPROVER_assert(live_elems == 0, "C14: SET_OF_free releases every element exactly once");
	free(in);
}

void h_SET_OF_decode_oer_chunked(void) {
	VF_BYTES(buf, VF_N); VF_SCALAR(size_t, size); VF_SCALAR(size_t, k);
	__CPROVER_assume(size <= VF_N && k <= size);
	setup();
	void *st1 = 0, *st2 = 0;
	asn_dec_rval_t one = SET_OF_decode_oer(0, &L_td, 0, &st1, buf, size);
	asn_dec_rval_t r1 = SET_OF_decode_oer(0, &L_td, 0, &st2, buf, k);
	VF_CANARY();
	__CPROVER_assert(r1.consumed <= k, "C05: consumed does not exceed the chunk");
	if(one.code == RC_OK && k < one.consumed)
		__CPROVER_assert(r1.code == RC_WMORE, "C05: a proper prefix of a valid encoding yields RC_WMORE");
	if(r1.code == RC_WMORE) {
		asn_dec_rval_t r2 = SET_OF_decode_oer(0, &L_td, 0, &st2, buf + r1.consumed, size - r1.consumed);
		__CPROVER_assert(r2.code == one.code, "C05: chunked decoding ends with the same return code as one-shot decoding");
		if(one.code != RC_FAIL) {
			__CPROVER_assert(r1.consumed + r2.consumed == one.consumed, "C05: chunked decoding consumes the same total");
			if(one.code == RC_OK) __CPROVER_assert(L_eq((struct L *)st1, (struct L *)st2), "C05: chunked decoding yields the same value");
		}
	} else {
		__CPROVER_assert(r1.code == one.code, "C05: a chunk that decides the outcome decides it as the whole buffer does");
		if(one.code == RC_OK) {
			__CPROVER_assert(r1.consumed == one.consumed, "C05: same consumed count");
			__CPROVER_assert(L_eq((struct L *)st1, (struct L *)st2), "C05: same value");
		}
	}
	SET_OF_free(&L_td, st1, ASFM_FREE_EVERYTHING); SET_OF_free(&L_td, st2, ASFM_FREE_EVERYTHING);
}

/* three chunks, the middle one empty (a caller that was woken up without new data): still the same result */
void h_SET_OF_decode_oer_chunked3(void) {
	VF_BYTES(buf, VF_N); VF_SCALAR(size_t, size); VF_SCALAR(size_t, k);
	__CPROVER_assume(size <= VF_N && k <= size);
	setup();
	void *st1 = 0, *st2 = 0;
	asn_dec_rval_t one = SET_OF_decode_oer(0, &L_td, 0, &st1, buf, size);
	asn_dec_rval_t r1 = SET_OF_decode_oer(0, &L_td, 0, &st2, buf, k);
	VF_CANARY();
	if(r1.code == RC_WMORE) {
		asn_dec_rval_t r0 = SET_OF_decode_oer(0, &L_td, 0, &st2, buf + r1.consumed, 0);
		__CPROVER_assert(r0.code == RC_WMORE && r0.consumed == 0, "C05: a call without new data asks for more and consumes nothing");
		asn_dec_rval_t r2 = SET_OF_decode_oer(0, &L_td, 0, &st2, buf + r1.consumed, size - r1.consumed);
		__CPROVER_assert(r2.code == one.code, "C05: chunked decoding ends with the same return code as one-shot decoding");
		if(one.code != RC_FAIL) {
			__CPROVER_assert(r1.consumed + r2.consumed == one.consumed, "C05: chunked decoding consumes the same total");
			if(one.code == RC_OK) __CPROVER_assert(L_eq((struct L *)st1, (struct L *)st2), "C05: chunked decoding yields the same value");
		}
	}
	SET_OF_free(&L_td, st1, ASFM_FREE_EVERYTHING); SET_OF_free(&L_td, st2, ASFM_FREE_EVERYTHING);
}

VF_NATIVE_MAIN
