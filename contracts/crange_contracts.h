/* contract for the edge order of libasn1fix/asn1fix_crange.c (static: re-declared in the same translation unit).
 * MIN < every value < MAX, values by magnitude (asn1c_integer_t is __int128 in the real build). */
#include "asn1fix_internal.h"
#include "asn1fix_constraint.h"
#include "asn1fix_crange.h"

static int _edge_compare(const asn1cnst_edge_t *el, const asn1cnst_edge_t *er)
__CPROVER_requires(__CPROVER_r_ok(el, sizeof(*el)) && __CPROVER_r_ok(er, sizeof(*er)))
__CPROVER_requires((el->type == ARE_MIN || el->type == ARE_MAX || el->type == ARE_VALUE) && (er->type == ARE_MIN || er->type == ARE_MAX || er->type == ARE_VALUE))
__CPROVER_assigns()
__CPROVER_ensures(__CPROVER_return_value >= -1 && __CPROVER_return_value <= 1)
__CPROVER_ensures((__CPROVER_return_value == 0) == (el->type == er->type && (el->type != ARE_VALUE || el->value == er->value)))
__CPROVER_ensures((__CPROVER_return_value < 0) == (
	(el->type == ARE_MIN && er->type != ARE_MIN) || (el->type == ARE_VALUE && er->type == ARE_MAX) ||
	(el->type == ARE_VALUE && er->type == ARE_VALUE && el->value < er->value)))
;
