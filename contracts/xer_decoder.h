/* contract for skeletons/xer_decoder.c: xer_whitespace_span returns the length of the longest prefix made of the four XER
 * whitespace characters of X.693 8.1.4, for a chunk of any length (loop contract in loops/skeletons__xer_decoder.c.loops). */
#include <asn_internal.h>
#include <xer_decoder.h>
extern size_t vf_k;     /* ghost index: an arbitrary position chosen by the harness (stands for "forall k") */
#define VF_XWS(c) ((c) == 0x09 || (c) == 0x0a || (c) == 0x0d || (c) == 0x20)

size_t xer_whitespace_span(const void *chunk_buf, size_t chunk_size)
__CPROVER_requires(chunk_size <= ((size_t)1 << 40) && __CPROVER_is_fresh(chunk_buf, chunk_size))
__CPROVER_assigns()
__CPROVER_ensures(__CPROVER_return_value <= chunk_size)
__CPROVER_ensures(vf_k < __CPROVER_return_value ==> VF_XWS(((const char *)chunk_buf)[vf_k]))
__CPROVER_ensures(__CPROVER_return_value < chunk_size ==> !VF_XWS(((const char *)chunk_buf)[__CPROVER_return_value]))
;
