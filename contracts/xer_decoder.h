/* contract for skeletons/xer_decoder.c: xer_whitespace_span returns the length of the longest prefix made of the four XER
 * whitespace characters of X.693 8.1.4, for a chunk of any length (loop contract in loops/skeletons__xer_decoder.c.loops). */
#include <asn_internal.h>
#include <xer_decoder.h>
extern size_t vf_k;     /* ghost index: an arbitrary position chosen by the harness (stands for "forall k") */
#define VF_XWS(c) ((c) == 0x09 || (c) == 0x0a || (c) == 0x0d || (c) == 0x20)

size_t xer_whitespace_span(const void *chunk_buf, size_t chunk_size)
__CPROVER_requires(chunk_size <= ((size_t)1 << 40) && __CPROVER_is_fresh(chunk_buf, chunk_size))
__CPROVER_assigns()
__CPROVER_ensures(__CPROVER_return_value <= chunk_size)
__CPROVER_ensures(vf_k < __CPROVER_return_value ==> VF_XWS(((const char *)chunk_buf)[vf_k]))
__CPROVER_ensures(__CPROVER_return_value < chunk_size ==> !VF_XWS(((const char *)chunk_buf)[__CPROVER_return_value]))
;

/* xer_check_tag: classification of one XML tag token against an expected element name, for a token and a name of any
 * length.  vf_len is a ghost: the length of the NUL-terminated name (need_tag[vf_len] == 0). */
extern size_t vf_len;
xer_check_tag_e xer_check_tag(const void *buf_ptr, int size, const char *need_tag)
__CPROVER_requires(size >= 0 && size <= (1 << 30) && __CPROVER_is_fresh(buf_ptr, (size_t)size))
__CPROVER_requires(need_tag == 0 || (vf_len <= (1u << 30) && __CPROVER_is_fresh(need_tag, vf_len + 1) && need_tag[vf_len] == 0))
__CPROVER_assigns()
__CPROVER_ensures(__CPROVER_return_value >= XCT_BROKEN && __CPROVER_return_value <= XCT_UNKNOWN_BO && __CPROVER_return_value != XCT__UNK__MASK)
__CPROVER_ensures((size < 2 || ((const char *)buf_ptr)[0] != 0x3c || ((const char *)buf_ptr)[size - 1] != 0x3e) ==> __CPROVER_return_value == XCT_BROKEN)
__CPROVER_ensures((size >= 3 && ((const char *)buf_ptr)[0] == 0x3c && ((const char *)buf_ptr)[size - 1] == 0x3e && ((const char *)buf_ptr)[1] == 0x2f && __CPROVER_return_value != XCT_BROKEN) ==> ((__CPROVER_return_value & 3) == XCT_CLOSING))
;
