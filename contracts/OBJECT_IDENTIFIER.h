/* contracts for skeletons/OBJECT_IDENTIFIER.c */
#include <asn_internal.h>
#include <OBJECT_IDENTIFIER.h>
extern int __CPROVER_errno;

ssize_t OBJECT_IDENTIFIER_get_single_arc(const uint8_t *arcbuf, size_t arcbuf_len, asn_oid_arc_t *ret_value)
__CPROVER_requires(arcbuf_len == 0 ? arcbuf != 0 : __CPROVER_r_ok(arcbuf, arcbuf_len))
__CPROVER_requires(__CPROVER_w_ok(ret_value, sizeof(*ret_value)))
__CPROVER_assigns(*ret_value, __CPROVER_errno)
__CPROVER_ensures(__CPROVER_return_value >= -1 && (__CPROVER_return_value <= 0 || (size_t)__CPROVER_return_value <= arcbuf_len))
__CPROVER_ensures((arcbuf_len == 0) == (__CPROVER_return_value == 0))
__CPROVER_ensures(__CPROVER_return_value > 0 ==> (arcbuf[__CPROVER_return_value - 1] & 0x80) == 0)
;

ssize_t OBJECT_IDENTIFIER_set_single_arc(uint8_t *arcbuf, size_t arcbuf_len, asn_oid_arc_t value)
__CPROVER_requires(__CPROVER_w_ok(arcbuf, arcbuf_len))
__CPROVER_assigns(__CPROVER_object_upto(arcbuf, arcbuf_len))
__CPROVER_ensures(__CPROVER_return_value == -1 || (__CPROVER_return_value >= 1 && __CPROVER_return_value <= 5 && (size_t)__CPROVER_return_value <= arcbuf_len))
__CPROVER_ensures((value < 128 && arcbuf_len >= 1) ==> (__CPROVER_return_value == 1 && arcbuf[0] == value))
;

