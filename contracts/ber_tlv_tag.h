/* contracts for skeletons/ber_tlv_tag.c (re-declarations; pre-included with -include) */
#include <asn_internal.h>
#include <ber_tlv_tag.h>
#include <spec/x690.h>

/* ghost index: an arbitrary octet position chosen by the harness (stands for "forall k") */
extern size_t vf_k;

#define VF_TB(p, i) (((const uint8_t *)(p))[i])
/* 7-bit payload of octet i of the tag, 0 for positions before the first subsequent octet */
#define VF_TG(p, i) ((uint64_t)(((long)(i) >= 1) ? (VF_TB(p, (long)(i)) & 0x7Fu) : 0u))
/* value of the five 7-bit groups ending at octet position `last` */
#define VF_TAG5(p, last) ((VF_TG(p, (long)(last) - 4) << 28) | (VF_TG(p, (long)(last) - 3) << 21) | \
	(VF_TG(p, (long)(last) - 2) << 14) | (VF_TG(p, (long)(last) - 1) << 7) | VF_TG(p, (long)(last)))

ssize_t ber_fetch_tag(const void *ptr, size_t size, ber_tlv_tag_t *tag_r)
__CPROVER_requires(size == 0 || __CPROVER_r_ok(ptr, size))
__CPROVER_requires(__CPROVER_w_ok(tag_r, sizeof(*tag_r)))
__CPROVER_assigns(*tag_r)
/* result range: consumed never exceeds size */
__CPROVER_ensures(__CPROVER_return_value == -1 || __CPROVER_return_value == 0 ||
	(__CPROVER_return_value >= 1 && (size_t)__CPROVER_return_value <= size))
__CPROVER_ensures(size == 0 ==> __CPROVER_return_value == 0)
/* low-tag-number form, X.690 8.1.2.2..8.1.2.3 */
__CPROVER_ensures((size >= 1 && (VF_TB(ptr, 0) & 0x1F) != 0x1F) ==>
	(__CPROVER_return_value == 1 && *tag_r == (((VF_TB(ptr, 0) & 0x1Fu) << 2) | (VF_TB(ptr, 0) >> 6))))
__CPROVER_ensures(__CPROVER_return_value == 1 ==> (VF_TB(ptr, 0) & 0x1F) != 0x1F)
/* high-tag-number form, 8.1.2.4: r>1 ==> last octet has bit 8 clear, every earlier subsequent one has it set */
__CPROVER_ensures(__CPROVER_return_value > 1 ==> ((VF_TB(ptr, 0) & 0x1F) == 0x1F &&
	(VF_TB(ptr, __CPROVER_return_value - 1) & 0x80) == 0))
__CPROVER_ensures((__CPROVER_return_value > 1 && vf_k >= 1 && vf_k < (size_t)__CPROVER_return_value - 1) ==>
	(VF_TB(ptr, vf_k) & 0x80) != 0)
/* value: class from the leading octet, number = base-128 big-endian of the subsequent octets:
 * the last five groups give the number, every earlier group is zero (padding 0x80 accepted) */
__CPROVER_ensures(__CPROVER_return_value > 1 ==> ((*tag_r & 3u) == (VF_TB(ptr, 0) >> 6) &&
	(uint64_t)(*tag_r >> 2) == VF_TAG5(ptr, (size_t)__CPROVER_return_value - 1) &&
	VF_TAG5(ptr, (size_t)__CPROVER_return_value - 1) < (1ull << 30)))
__CPROVER_ensures((__CPROVER_return_value > 6 && vf_k >= 1 && vf_k < (size_t)__CPROVER_return_value - 5) ==>
	VF_TB(ptr, vf_k) == 0x80)
/* want-more: no terminating octet within size */
__CPROVER_ensures((__CPROVER_return_value == 0 && size >= 1) ==> (VF_TB(ptr, 0) & 0x1F) == 0x1F)
__CPROVER_ensures((__CPROVER_return_value == 0 && vf_k >= 1 && vf_k < size) ==> (VF_TB(ptr, vf_k) & 0x80) != 0)
/* failure only for a number that does not fit 23+7 bits: some non-terminating octet exists */
__CPROVER_ensures(__CPROVER_return_value == -1 ==> (size >= 2 && (VF_TB(ptr, 0) & 0x1F) == 0x1F))
;

size_t ber_tlv_tag_serialize(ber_tlv_tag_t tag, void *bufp, size_t size)
__CPROVER_requires(size == 0 || __CPROVER_w_ok(bufp, size))
__CPROVER_assigns(size != 0: __CPROVER_object_upto(bufp, size))
/* same size whatever the buffer */
__CPROVER_ensures(__CPROVER_return_value == spec_tag_len(tag))
/* octets are the X.690 8.1.2 form when they fit */
__CPROVER_ensures((size >= spec_tag_len(tag) && vf_k < spec_tag_len(tag)) ==>
	VF_TB(bufp, vf_k) == spec_tag_octet(tag, vf_k))
;
