/* contracts for skeletons/oer_support.c: frame (C19) and result range */
#include <asn_internal.h>
#include <oer_support.h>

ssize_t oer_fetch_length(const void *bufptr, size_t size, size_t *len_r)
__CPROVER_requires(size == 0 || __CPROVER_r_ok(bufptr, size))
__CPROVER_requires(__CPROVER_w_ok(len_r, sizeof(*len_r)))
__CPROVER_assigns(*len_r)
__CPROVER_ensures(__CPROVER_return_value >= -1 && (__CPROVER_return_value <= 0 || (size_t)__CPROVER_return_value <= size))
__CPROVER_ensures(__CPROVER_return_value > 0 ==> *len_r <= RSIZE_MAX)
__CPROVER_ensures(__CPROVER_return_value <= 0 ==> *len_r == 0)
;
