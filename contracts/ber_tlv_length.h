/* contracts for skeletons/ber_tlv_length.c: frames (C19) and result ranges; the exact values are asserted by harness/ber_len.c */
#include <asn_internal.h>
#include <ber_tlv_length.h>
#include <spec/x690.h>

ssize_t ber_fetch_length(int _is_constructed, const void *bufptr, size_t size, ber_tlv_len_t *len_r)
__CPROVER_requires(size == 0 || __CPROVER_r_ok(bufptr, size))
__CPROVER_requires(__CPROVER_w_ok(len_r, sizeof(*len_r)))
__CPROVER_assigns(*len_r)
__CPROVER_ensures(__CPROVER_return_value >= -1 && (__CPROVER_return_value <= 0 || (size_t)__CPROVER_return_value <= size))
__CPROVER_ensures(__CPROVER_return_value > 0 ==> (*len_r >= -1 && *len_r <= RSSIZE_MAX))
__CPROVER_ensures((__CPROVER_return_value > 0 && *len_r == -1) ==> _is_constructed != 0)
;

size_t der_tlv_length_serialize(ber_tlv_len_t len, void *bufp, size_t size)
__CPROVER_requires(len >= 0)
__CPROVER_requires(size == 0 || __CPROVER_w_ok(bufp, size))
__CPROVER_assigns(size != 0: __CPROVER_object_upto(bufp, size))
__CPROVER_ensures(__CPROVER_return_value == spec_der_len_len((uint64_t)len))
;
