/* contracts for skeletons/INTEGER.c (conversion helpers, C16) */
#include <asn_internal.h>
#include <INTEGER.h>
#include <errno.h>
#include <spec/x690.h>

extern int __CPROVER_errno;
extern size_t vf_k;

/* representation invariant of an INTEGER_t handed to a reader */
#define VF_INT_READABLE(p) ((p)->buf == 0 || __CPROVER_r_ok((p)->buf, (p)->size))

static intmax_t asn__integer_convert(const uint8_t *b, const uint8_t *end)
__CPROVER_requires(__CPROVER_same_object(b, end) && end - b >= 1 && end - b <= 8 && __CPROVER_r_ok(b, end - b))
__CPROVER_assigns()
__CPROVER_ensures(__CPROVER_return_value == spec_int_decode(b, end - b))
;

int asn_INTEGER2imax(const INTEGER_t *iptr, intmax_t *lptr)
__CPROVER_requires(iptr == 0 || (__CPROVER_r_ok(iptr, sizeof(*iptr)) && VF_INT_READABLE(iptr)))
__CPROVER_requires(lptr == 0 || __CPROVER_w_ok(lptr, sizeof(*lptr)))
__CPROVER_requires(iptr == 0 || iptr->size <= (SIZE_MAX >> 1))
__CPROVER_assigns(lptr != 0: *lptr; __CPROVER_errno)
__CPROVER_ensures(__CPROVER_return_value == 0 || __CPROVER_return_value == -1)
__CPROVER_ensures((iptr == 0 || iptr->buf == 0 || lptr == 0) ==> (__CPROVER_return_value == -1 && __CPROVER_errno == EINVAL))
/* up to 8 octets always fit */
__CPROVER_ensures((iptr != 0 && iptr->buf != 0 && lptr != 0 && iptr->size <= 8) ==> (__CPROVER_return_value == 0 &&
	*lptr == (iptr->size == 0 ? 0 : spec_int_decode(iptr->buf, iptr->size))))
/* longer: success means every octet before the last eight is sign extension of the value returned */
__CPROVER_ensures((iptr != 0 && iptr->buf != 0 && lptr != 0 && iptr->size > 8 && __CPROVER_return_value == 0) ==> (
	*lptr == spec_int_decode(iptr->buf + (iptr->size - 8), 8) &&
	(iptr->buf[iptr->size - 9] == ((iptr->buf[iptr->size - 8] & 0x80) ? 0xFF : 0x00)) &&
	(vf_k >= iptr->size - 8 || iptr->buf[vf_k] == ((iptr->buf[iptr->size - 8] & 0x80) ? 0xFF : 0x00))))
__CPROVER_ensures((iptr != 0 && iptr->buf != 0 && lptr != 0 && __CPROVER_return_value == -1) ==> (
	iptr->size > 8 && __CPROVER_errno == ERANGE))
;

int asn_INTEGER2umax(const INTEGER_t *iptr, uintmax_t *lptr)
__CPROVER_requires(iptr == 0 || (__CPROVER_r_ok(iptr, sizeof(*iptr)) && VF_INT_READABLE(iptr)))
__CPROVER_requires(lptr == 0 || __CPROVER_w_ok(lptr, sizeof(*lptr)))
__CPROVER_requires(iptr == 0 || iptr->size <= (SIZE_MAX >> 1))
__CPROVER_assigns(lptr != 0: *lptr; __CPROVER_errno)
__CPROVER_ensures(__CPROVER_return_value == 0 || __CPROVER_return_value == -1)
__CPROVER_ensures((iptr == 0 || iptr->buf == 0 || lptr == 0) ==> (__CPROVER_return_value == -1 && __CPROVER_errno == EINVAL))
__CPROVER_ensures((iptr != 0 && iptr->buf != 0 && lptr != 0 && iptr->size <= 8) ==> (__CPROVER_return_value == 0 &&
	*lptr == spec_uint_decode(iptr->buf, iptr->size)))
__CPROVER_ensures((iptr != 0 && iptr->buf != 0 && lptr != 0 && iptr->size > 8 && __CPROVER_return_value == 0) ==> (
	*lptr == spec_uint_decode(iptr->buf + (iptr->size - 8), 8) &&
	(vf_k >= iptr->size - 8 || iptr->buf[vf_k] == 0)))
__CPROVER_ensures((iptr != 0 && iptr->buf != 0 && lptr != 0 && __CPROVER_return_value == -1) ==> (
	iptr->size > 8 && __CPROVER_errno == ERANGE))
;

int asn_imax2INTEGER(INTEGER_t *st, intmax_t value)
__CPROVER_requires(st == 0 || __CPROVER_w_ok(st, sizeof(*st)))
__CPROVER_requires(st == 0 || st->buf == 0 || __CPROVER_is_freeable(st->buf))
__CPROVER_assigns(st != 0: st->buf, st->size; __CPROVER_errno)
__CPROVER_frees(st != 0: st->buf)
__CPROVER_ensures(__CPROVER_return_value == 0 || __CPROVER_return_value == -1)
__CPROVER_ensures(st == 0 ==> (__CPROVER_return_value == -1 && __CPROVER_errno == EINVAL))
__CPROVER_ensures(__CPROVER_return_value == 0 ==> (st != 0 && st->size == spec_int_len(value) &&
	__CPROVER_is_fresh(st->buf, sizeof(intmax_t)) && VF_OCT_EQ(st->buf, st->size, spec_int_octet, value)))
__CPROVER_ensures((st != 0 && __CPROVER_return_value == -1) ==> (
	st->buf == __CPROVER_old(st->buf) && st->size == __CPROVER_old(st->size)))
;

int asn_umax2INTEGER(INTEGER_t *st, uintmax_t value)
__CPROVER_requires(st == 0 || __CPROVER_w_ok(st, sizeof(*st)))
__CPROVER_requires(st == 0 || st->buf == 0 || __CPROVER_is_freeable(st->buf))
__CPROVER_assigns(st != 0: st->buf, st->size; __CPROVER_errno)
__CPROVER_frees(st != 0: st->buf)
__CPROVER_ensures(__CPROVER_return_value == 0 || __CPROVER_return_value == -1)
__CPROVER_ensures(__CPROVER_return_value == 0 ==> (st != 0 && st->size == spec_uint_len(value) &&
	__CPROVER_is_fresh(st->buf, st->size) && VF_OCT_EQ(st->buf, st->size, spec_uint_octet, value)))
__CPROVER_ensures((st != 0 && __CPROVER_return_value == -1) ==> (
	st->buf == __CPROVER_old(st->buf) && st->size == __CPROVER_old(st->size)))
;
