/* contract for OCTET_STRING_encode_xer, CANONICAL-XER form, for a string of any length: the 52-octet scratch buffer is never
 * overrun, nothing visible to the caller is written, and the reported size is two hexadecimal digits per octet (or -1 when
 * the output callback refuses data).  Loop contract in loops/skeletons__OCTET_STRING.c.loops. */
#include <asn_internal.h>
#include <OCTET_STRING.h>
asn_enc_rval_t OCTET_STRING_encode_xer(const asn_TYPE_descriptor_t *td, const void *sptr, int ilevel, enum xer_encoder_flags_e flags, asn_app_consume_bytes_f *cb, void *app_key)
__CPROVER_requires(flags == XER_F_CANONICAL)
__CPROVER_requires(__CPROVER_r_ok(sptr, sizeof(OCTET_STRING_t)))
__CPROVER_requires(((const OCTET_STRING_t *)sptr)->size >= 0 && ((const OCTET_STRING_t *)sptr)->size <= (1 << 28) && ((const OCTET_STRING_t *)sptr)->buf != 0 && __CPROVER_r_ok(((const OCTET_STRING_t *)sptr)->buf, ((const OCTET_STRING_t *)sptr)->size))
__CPROVER_assigns()
__CPROVER_ensures(__CPROVER_return_value.encoded == -1 || __CPROVER_return_value.encoded == 2 * (ssize_t)((const OCTET_STRING_t *)sptr)->size)
;
