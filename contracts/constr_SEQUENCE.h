/* contract for the tag2el comparator of skeletons/constr_SEQUENCE.c (static; re-declaration in the same translation unit):
 * order of (class, number); for equal tags the key (first argument) matches any table entry whose member index is not
 * below the key's, which is how SEQUENCE_decode_ber finds "the next member with this tag". */
#include <asn_internal.h>
#include <constr_SEQUENCE.h>

static int _t2e_cmp(const void *ap, const void *bp)
__CPROVER_requires(__CPROVER_r_ok(ap, sizeof(asn_TYPE_tag2member_t)) && __CPROVER_r_ok(bp, sizeof(asn_TYPE_tag2member_t)))
__CPROVER_assigns()
__CPROVER_ensures(__CPROVER_return_value >= -1 && __CPROVER_return_value <= 1)
__CPROVER_ensures((((const asn_TYPE_tag2member_t *)ap)->el_tag == ((const asn_TYPE_tag2member_t *)bp)->el_tag) ==>
	__CPROVER_return_value == (((const asn_TYPE_tag2member_t *)ap)->el_no > ((const asn_TYPE_tag2member_t *)bp)->el_no ? 1 : 0))
__CPROVER_ensures((((const asn_TYPE_tag2member_t *)ap)->el_tag != ((const asn_TYPE_tag2member_t *)bp)->el_tag) ==>
	(__CPROVER_return_value < 0) == (
	(((const asn_TYPE_tag2member_t *)ap)->el_tag & 3) < (((const asn_TYPE_tag2member_t *)bp)->el_tag & 3) ||
	((((const asn_TYPE_tag2member_t *)ap)->el_tag & 3) == (((const asn_TYPE_tag2member_t *)bp)->el_tag & 3) &&
	 (((const asn_TYPE_tag2member_t *)ap)->el_tag >> 2) < (((const asn_TYPE_tag2member_t *)bp)->el_tag >> 2))))
__CPROVER_ensures((((const asn_TYPE_tag2member_t *)ap)->el_tag != ((const asn_TYPE_tag2member_t *)bp)->el_tag) ==> __CPROVER_return_value != 0)
;
