/* contract for the XML tokeniser pxml_parse of skeletons/xer_support.c, for input of any length and any callback behaviour:
 * it reads only inside the buffer, reports a consumed count within it, and leaves nothing but *stateContext changed. */
#include <asn_internal.h>
#include <xer_support.h>
ssize_t pxml_parse(int *stateContext, const void *xmlbuf, size_t size, pxml_callback_f *cb, void *key)
__CPROVER_requires(size <= ((size_t)1 << 40) && __CPROVER_is_fresh(xmlbuf, size))
__CPROVER_requires(__CPROVER_is_fresh(stateContext, sizeof(int)))
__CPROVER_assigns(*stateContext)
__CPROVER_ensures(__CPROVER_return_value >= 0 && (size_t)__CPROVER_return_value <= size)
;
