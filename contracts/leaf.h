/* contracts for loop-free leaf functions used by every codec (frames for C19; result semantics for C01/C06) */
#include <asn_internal.h>
#include <asn_bit_data.h>
#include <BOOLEAN.h>
#include <NULL.h>
#include <NativeInteger.h>
#include <constr_TYPE.h>

void asn_get_undo(asn_bit_data_t *pd, int nbits)
__CPROVER_requires(__CPROVER_w_ok(pd, sizeof(*pd)))
__CPROVER_requires(nbits >= 0)      /* every call site passes a literal 1 or the count it has just read */
__CPROVER_assigns(pd->nboff, pd->moved)
__CPROVER_ensures(((ssize_t)__CPROVER_old(pd->nboff) >= nbits) ==> (pd->nboff == __CPROVER_old(pd->nboff) - (size_t)nbits && pd->moved == __CPROVER_old(pd->moved) - (size_t)nbits))
__CPROVER_ensures(((ssize_t)__CPROVER_old(pd->nboff) < nbits) ==> (pd->nboff == __CPROVER_old(pd->nboff) && pd->moved == __CPROVER_old(pd->moved)))
;

int BOOLEAN_compare(const asn_TYPE_descriptor_t *td, const void *aptr, const void *bptr)
__CPROVER_requires(aptr == 0 || __CPROVER_r_ok(aptr, sizeof(BOOLEAN_t)))
__CPROVER_requires(bptr == 0 || __CPROVER_r_ok(bptr, sizeof(BOOLEAN_t)))
__CPROVER_assigns()
__CPROVER_ensures(__CPROVER_return_value >= -1 && __CPROVER_return_value <= 1)
__CPROVER_ensures((aptr != 0 && bptr != 0) ==> ((__CPROVER_return_value == 0) == ((*(const BOOLEAN_t *)aptr != 0) == (*(const BOOLEAN_t *)bptr != 0))))
;

int NULL_compare(const asn_TYPE_descriptor_t *td, const void *a, const void *b)
__CPROVER_assigns()
__CPROVER_ensures(__CPROVER_return_value == 0)
;

int NativeInteger_compare(const asn_TYPE_descriptor_t *td, const void *aptr, const void *bptr)
__CPROVER_requires(__CPROVER_r_ok(td, sizeof(*td)))
__CPROVER_requires(td->specifics == 0 || __CPROVER_r_ok(td->specifics, sizeof(asn_INTEGER_specifics_t)))
__CPROVER_requires(aptr == 0 || __CPROVER_r_ok(aptr, sizeof(long)))
__CPROVER_requires(bptr == 0 || __CPROVER_r_ok(bptr, sizeof(long)))
__CPROVER_assigns()
__CPROVER_ensures(__CPROVER_return_value >= -1 && __CPROVER_return_value <= 1)
__CPROVER_ensures((aptr != 0 && bptr != 0) ==> ((__CPROVER_return_value == 0) == (*(const long *)aptr == *(const long *)bptr)))
__CPROVER_ensures((aptr != 0 && bptr != 0 && (td->specifics == 0 || !((const asn_INTEGER_specifics_t *)td->specifics)->field_unsigned)) ==>
	((__CPROVER_return_value < 0) == (*(const long *)aptr < *(const long *)bptr)))
__CPROVER_ensures((aptr != 0 && bptr != 0 && td->specifics != 0 && ((const asn_INTEGER_specifics_t *)td->specifics)->field_unsigned) ==>
	((__CPROVER_return_value < 0) == (*(const unsigned long *)aptr < *(const unsigned long *)bptr)))
;
