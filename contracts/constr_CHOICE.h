/* contracts for the loop-free helpers of skeletons/constr_CHOICE.c (static: the contract is attached as a re-declaration
 * in the same translation unit).  Presence index: stored in an int, short or char at pres_offset; tag comparator: the
 * order of (class, number) used for the bsearch over tag2el. */
#include <asn_internal.h>
#include <constr_CHOICE.h>

static unsigned _fetch_present_idx(const void *struct_ptr, unsigned pres_offset, unsigned pres_size)
__CPROVER_requires(pres_size == sizeof(int) || pres_size == sizeof(short) || pres_size == sizeof(char))
__CPROVER_requires(pres_offset <= 4096 && __CPROVER_r_ok((const char *)struct_ptr + pres_offset, pres_size))
__CPROVER_assigns()
__CPROVER_ensures(pres_size == sizeof(char) ==> __CPROVER_return_value == *((const unsigned char *)struct_ptr + pres_offset))
__CPROVER_ensures(pres_size == sizeof(short) ==> __CPROVER_return_value <= 0xFFFF)
;

static void _set_present_idx(void *struct_ptr, unsigned pres_offset, unsigned pres_size, unsigned present)
__CPROVER_requires(pres_size == sizeof(int) || pres_size == sizeof(short) || pres_size == sizeof(char))
__CPROVER_requires(pres_offset <= 4096 && __CPROVER_w_ok((char *)struct_ptr + pres_offset, pres_size))
__CPROVER_assigns(__CPROVER_object_upto((char *)struct_ptr + pres_offset, pres_size))
;

static int _search4tag(const void *ap, const void *bp)
__CPROVER_requires(__CPROVER_r_ok(ap, sizeof(asn_TYPE_tag2member_t)) && __CPROVER_r_ok(bp, sizeof(asn_TYPE_tag2member_t)))
__CPROVER_assigns()
__CPROVER_ensures(__CPROVER_return_value >= -1 && __CPROVER_return_value <= 1)
__CPROVER_ensures((__CPROVER_return_value == 0) == (((const asn_TYPE_tag2member_t *)ap)->el_tag == ((const asn_TYPE_tag2member_t *)bp)->el_tag))
__CPROVER_ensures((__CPROVER_return_value < 0) == (
	(((const asn_TYPE_tag2member_t *)ap)->el_tag & 3) < (((const asn_TYPE_tag2member_t *)bp)->el_tag & 3) ||
	((((const asn_TYPE_tag2member_t *)ap)->el_tag & 3) == (((const asn_TYPE_tag2member_t *)bp)->el_tag & 3) &&
	 (((const asn_TYPE_tag2member_t *)ap)->el_tag >> 2) < (((const asn_TYPE_tag2member_t *)bp)->el_tag >> 2))))
;
