/* contract for the quantity field reader of skeletons/constr_SET_OF_oer.c (static: re-declared in the same translation
 * unit).  X.696 17: the number of elements is an INTEGER (length, then big-endian octets).  C15/C04: whatever the input
 * announces, the count handed to the element loop never exceeds RSIZE_MAX (it is stored in a signed field), and nothing
 * beyond `size` is read. */
#include <asn_internal.h>
#include <constr_SET_OF.h>

static ssize_t oer_fetch_quantity(const void *ptr, size_t size, size_t *qty_r)
__CPROVER_requires(size <= 12 && (size == 0 || __CPROVER_r_ok(ptr, size)))
__CPROVER_requires(__CPROVER_w_ok(qty_r, sizeof(*qty_r)))
__CPROVER_assigns(*qty_r)
__CPROVER_ensures(__CPROVER_return_value >= -1 && (__CPROVER_return_value <= 0 || (size_t)__CPROVER_return_value <= size))
__CPROVER_ensures(*qty_r <= RSIZE_MAX)
__CPROVER_ensures(__CPROVER_return_value <= 0 ==> *qty_r == 0)
/* short forms: 01 n and 02 hi lo */
__CPROVER_ensures((size >= 2 && ((const uint8_t *)ptr)[0] == 1) ==> (__CPROVER_return_value == 2 && *qty_r == ((const uint8_t *)ptr)[1]))
__CPROVER_ensures((size >= 3 && ((const uint8_t *)ptr)[0] == 2) ==> (__CPROVER_return_value == 3 && *qty_r == (size_t)((((const uint8_t *)ptr)[1] << 8) | ((const uint8_t *)ptr)[2])))
;
