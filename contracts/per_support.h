/* contracts for skeletons/per_support.c (loop-free helpers): frames (C19) and value */
#include <asn_internal.h>
#include <per_support.h>

int per_long_range_rebase(long v, long lb, long ub, unsigned long *output)
__CPROVER_requires(lb <= ub && __CPROVER_w_ok(output, sizeof(*output)))
__CPROVER_assigns(*output)
__CPROVER_ensures(__CPROVER_return_value == ((v < lb || v > ub) ? -1 : 0))
__CPROVER_ensures(__CPROVER_return_value == 0 ==> *output == (unsigned long)v - (unsigned long)lb)
;
int per_long_range_unrebase(unsigned long inp, long lb, long ub, long *outp)
__CPROVER_requires(lb <= ub && __CPROVER_w_ok(outp, sizeof(*outp)))
__CPROVER_assigns(*outp)
__CPROVER_ensures(__CPROVER_return_value == ((inp > (unsigned long)ub - (unsigned long)lb) ? -1 : 0))
__CPROVER_ensures(__CPROVER_return_value == 0 ==> (*outp >= lb && *outp <= ub && (unsigned long)*outp - (unsigned long)lb == inp))
;
