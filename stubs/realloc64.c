/* VF_TRUSTED(realloc: replaces CBMC's library model, whose whole-object __CPROVER_array_copy exhausts the SAT back end when the old block may be any heap object; stub = ISO C 7.22.3.5: new block of n bytes or NULL (old block untouched), the first min(old size, n) bytes copied, old block freed; blocks of at most 64 bytes are modelled, asserted) */
#include <stddef.h>
#include <stdlib.h>
void *realloc(void *p, size_t n) {
	unsigned char *r = (unsigned char *)malloc(n);
	if(!r) return 0;
	if(p) {
		size_t old = __CPROVER_OBJECT_SIZE(p), i;
		__CPROVER_assert(__CPROVER_POINTER_OFFSET(p) == 0, "realloc stub: pointer to the start of a block");
		__CPROVER_assert(old <= 64 || n <= 64, "realloc stub: at most 64 bytes are copied");
		for(i = 0; i < 64; i++) if(i < old && i < n) r[i] = ((unsigned char *)p)[i];
		free(p);
	}
	return r;
}
