/* VF_TRUSTED(bsearch: libc function without a CBMC model; stub = linear search of at most 8 elements with the caller's comparator (ISO C 7.20.5.1: returns a matching element or NULL; the array is sorted, so any match is the match)) */
#include <stddef.h>
void *bsearch(const void *key, const void *base, size_t nmemb, size_t size, int (*compar)(const void *, const void *)) {
	size_t i;
	__CPROVER_assert(nmemb <= 8, "bsearch stub: at most 8 elements are modelled");
	for(i = 0; i < 8; i++) if(i < nmemb && compar(key, (const char *)base + i * size) == 0) return (void *)((const char *)base + i * size);
	return 0;
}
