/* VF_TRUSTED(qsort: libc function without a CBMC model; stub = insertion sort of at most 3 elements of at most 64 bytes with the caller's comparator (ISO C 7.22.5.2: the result is a permutation of the input ordered by compar)) */
#include <stddef.h>
void qsort(void *base, size_t nmemb, size_t size, int (*compar)(const void *, const void *)) {
	unsigned char *b = (unsigned char *)base; size_t i, j, k;
	__CPROVER_assert(size <= 64 && nmemb <= 3, "qsort stub: at most 3 elements of at most 64 bytes are modelled");
	for(i = 1; i < 3; i++) if(i < nmemb)
		for(j = i; j > 0; j--)
			if(compar(b + (j - 1) * size, b + j * size) > 0)
				for(k = 0; k < 64; k++) if(k < size) { unsigned char t = b[(j - 1) * size + k]; b[(j - 1) * size + k] = b[j * size + k]; b[j * size + k] = t; }
}
