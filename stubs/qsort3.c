/* VF_TRUSTED(qsort: libc function without a CBMC model; stub = insertion sort of at most 4 pointer-sized elements with the caller's comparator (ISO C 7.20.5.2: result is a permutation ordered by compar)) */
#include <stddef.h>
#include <string.h>
void qsort(void *base, size_t nmemb, size_t size, int (*compar)(const void *, const void *)) {
	char *b = (char *)base; size_t i, j;
	__CPROVER_assert(size == sizeof(void *) && nmemb <= 4, "qsort stub: only up to 4 pointer-sized elements are modelled");
	for(i = 1; i < 4; i++) if(i < nmemb)
		for(j = i; j > 0; j--) {
			void *x, *y;
			memcpy(&x, b + (j - 1) * sizeof(void *), sizeof(void *)); memcpy(&y, b + j * sizeof(void *), sizeof(void *));
			if(compar(b + (j - 1) * sizeof(void *), b + j * sizeof(void *)) > 0) {
				memcpy(b + (j - 1) * sizeof(void *), &y, sizeof(void *)); memcpy(b + j * sizeof(void *), &x, sizeof(void *));
			}
		}
}
