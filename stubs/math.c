/* VF_TRUSTED(ilogb: stub over the IEEE-754 fields (spec_ilogb_bits); cross-checked against glibc by tools/crosscheck_ilogb.c at setup) */
#include <stdint.h>
#include <string.h>
#include <spec/real.h>
int ilogb(double d) {
	uint64_t bits;
	memcpy(&bits, &d, sizeof(bits));
	return spec_ilogb_bits(bits);
}

/* VF_TRUSTED(__builtin_isfinite: goto-cc 6.11 has no model for this GCC builtin; defined as !isnan && !isinf over CBMC's IEEE-754 model) */
int __builtin_isfinite(double d) { return !__CPROVER_isnand(d) && !__CPROVER_isinfd(d); }

/* VF_TRUSTED(ldexp: cbmc 6.11 has no model; m * 2^k computed as one or two exact-power-of-two multiplications in CBMC's IEEE-754 model (correctly rounded like glibc for the exponents asn_REAL2double produces from asn_double2REAL output)) */
static double vf_pow2(int k) {  /* -1074 <= k <= 1023 */
	unsigned long long bits = k >= -1022 ? ((unsigned long long)(k + 1023) << 52) : (1ull << (k + 1074));
	double d; memcpy(&d, &bits, sizeof(d)); return d;
}
double ldexp(double m, int k) {
	if(k > 1023) { m *= vf_pow2(1023); k -= 1023; if(k > 1023) { m *= vf_pow2(1023); k -= 1023; if(k > 1023) k = 1023; } return m * vf_pow2(k); }
	if(k < -1074) { m *= vf_pow2(-1000); k += 1000; if(k < -1074) { m *= vf_pow2(-1000); k += 1000; if(k < -1074) k = -1074; } return m * vf_pow2(k); }
	return m * vf_pow2(k);
}
