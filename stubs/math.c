/* VF_TRUSTED(ilogb: stub over the IEEE-754 fields (spec_ilogb_bits); cross-checked against glibc by tools/crosscheck_ilogb.c at setup) */
#include <stdint.h>
#include <string.h>
#include <spec/real.h>
int ilogb(double d) {
	uint64_t bits;
	memcpy(&bits, &d, sizeof(bits));
	return spec_ilogb_bits(bits);
}

/* VF_TRUSTED(__builtin_isfinite: goto-cc 6.11 has no model for this GCC builtin; defined as !isnan && !isinf over CBMC's IEEE-754 model) */
int __builtin_isfinite(double d) { return !__CPROVER_isnand(d) && !__CPROVER_isinfd(d); }
