/* VF_TRUSTED(memcpy: replaces CBMC's library model, whose variable-length scratch array exhausts the SAT back end when the length is symbolic; stub = ISO C 7.24.2.1 for lengths of at most 16 bytes (asserted), byte by byte; the regions are checked for validity by the pointer checks on each access) */
#include <stddef.h>
void *memcpy(void *dst, const void *src, size_t n) {
	size_t i;
	__CPROVER_assert(n <= 16, "memcpy stub: at most 16 bytes are modelled");
	for(i = 0; i < 16; i++) if(i < n) ((unsigned char *)dst)[i] = ((const unsigned char *)src)[i];
	return dst;
}
