/* VF_TRUSTED(calloc: replaces CBMC's library model; a heap block whose size is symbolic makes the propositional encoding run out of memory, so this stub hands out a zeroed block of always 96 bytes for every request of at most 96 bytes (asserted), or NULL.  Consequence, stated in the evidence: in obligations that use this stub a write past the requested size but inside the 96 bytes is not detected; reads of the slack see zeros) */
#include <stddef.h>
#include <stdlib.h>
void *calloc(size_t nmemb, size_t size) {
	size_t total, i; unsigned char *p;
	if(__builtin_mul_overflow(nmemb, size, &total)) return 0;
	__CPROVER_assert(total <= 96, "calloc stub: at most 96 bytes are modelled");
	p = (unsigned char *)malloc(96);
	if(!p) return 0;
	for(i = 0; i < 96; i++) p[i] = 0;
	return p;
}
