/* VF_TRUSTED(calloc: replaces CBMC's library model, whose zero-initialisation of a block of symbolic size exhausts the SAT back end; stub = ISO C 7.22.3.2: NULL or a fresh block of nmemb*size zero bytes (multiplication overflow gives NULL); blocks of at most 96 bytes are modelled, asserted) */
#include <stddef.h>
#include <stdlib.h>
void *calloc(size_t nmemb, size_t size) {
	size_t total, i; unsigned char *p;
	if(__builtin_mul_overflow(nmemb, size, &total)) return 0;
	__CPROVER_assert(total <= 96, "calloc stub: at most 96 bytes are modelled");
	p = (unsigned char *)malloc(total);
	if(!p) return 0;
	for(i = 0; i < 96; i++) if(i < total) p[i] = 0;
	return p;
}
