/* VF_TRUSTED(realloc: replaces CBMC's library model; every block handed out is 96 bytes whatever the request (requests above 96 are refused by assertion), the old contents are carried over, the old block is freed.  Same caveat as stubs/calloc_fixed96.c: writes into the slack past the requested size are not detected in obligations that use this stub.  Only sound together with allocators that also hand out 96-byte blocks, or for a NULL old pointer) */
#include <stddef.h>
#include <stdlib.h>
void *realloc(void *p, size_t n) {
	unsigned char *r; size_t i;
	__CPROVER_assert(n <= 96, "realloc stub: at most 96 bytes are modelled");
	r = (unsigned char *)malloc(96);
	if(!r) return 0;
	if(p) {
		__CPROVER_assert(__CPROVER_OBJECT_SIZE(p) == 96 && __CPROVER_POINTER_OFFSET(p) == 0, "realloc stub: old block comes from the same allocator");
		for(i = 0; i < 96; i++) r[i] = ((unsigned char *)p)[i];
		free(p);
	}
	return r;
}
