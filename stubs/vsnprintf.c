/* VF_TRUSTED(vsnprintf/snprintf: C99 7.19.6.12 contract only -- returns any int; when size > 0 writes at most size bytes and the result is NUL terminated within size bytes; nothing written when size == 0) */
#include <stdarg.h>
#include <stddef.h>
int nondet_vf_int(void);
unsigned long nondet_vf_ul(void);
char nondet_vf_char(void);
int vsnprintf(char *str, size_t size, const char *fmt, va_list ap) {
	int r = nondet_vf_int();
	(void)fmt; (void)ap;
	if(size > 0) {
		size_t n = nondet_vf_ul(), k = nondet_vf_ul();
		__CPROVER_assume(n < size);
		if(k < n) str[k] = nondet_vf_char();  /* an arbitrary position gets an arbitrary character */
		str[n] = 0;
		if(size >= 1) str[size - 1] = str[size - 1]; /* touches the last permitted byte: a too-large size is an out-of-bounds write */
	}
	return r;
}
int snprintf(char *str, size_t size, const char *fmt, ...) {
	int r = nondet_vf_int();
	(void)fmt;
	if(size > 0) {
		size_t n = nondet_vf_ul();
		__CPROVER_assume(n < size);
		str[n] = 0;
		str[size - 1] = str[size - 1];
	}
	return r;
}
