/* D-30 demonstration through the public API: uper_encode() of a SET OF with 40 one-octet elements, output callback that
 * refuses its first call only.  Before the fix: success is reported although 32 octets were never delivered; after: -1. */
#define VF_NATIVE 1
#define VF_ENTRY h_SET_OF_encode_uper
#define main main_unused
#include "/verif/harness/h_setof_uper_enc.c"
#undef main
#include <per_encoder.h>
static int calls, delivered;
static int cb(const void *p, size_t n, void *k) { (void)p; (void)k; if(calls++ == 0) return -1; delivered += (int)n; return 0; }
int main(void) {
  static struct sv e[40]; static struct sv *arr[40]; struct L l;
  setup(); static asn_TYPE_operation_t lop; lop.uper_encoder = SET_OF_encode_uper; L_td.op = &lop; for(int i = 0; i < 40; i++) { e[i].v = (uint8_t)i; arr[i] = &e[i]; }
  memset(&l, 0, sizeof(l)); l.list.array = arr; l.list.count = 40; l.list.size = 40;
  asn_enc_rval_t er = uper_encode(&L_td, 0, &l, cb, 0);
  printf("encoded=%zd bits, callback calls=%d, octets delivered=%d\n", er.encoded, calls, delivered);
  return er.encoded == -1 ? 0 : 1;
}
