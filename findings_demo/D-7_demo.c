#define VF_NATIVE 1
#define VF_ENTRY h_SET_OF_encode_der
#define VF_COUNT 2
#define main main_unused
#include "/verif/harness/h_setof_enc.c"
#undef main
static int fail_calloc_at = -1, ncalloc;
void *__real_calloc(size_t, size_t);
void *__wrap_calloc(size_t a, size_t b) { if(ncalloc++ == fail_calloc_at) return 0; return __real_calloc(a, b); }
int main(void) {
  struct sv e[2] = {{{1,0}},{{2,0}}}; struct sv *arr[2] = {&e[0], &e[1]}; struct L l;
  setup(); memset(&l, 0, sizeof(l)); l.list.array = arr; l.list.count = 2; l.list.size = 2;
  fail_calloc_at = ncalloc;   /* the next calloc (the table of element buffers in SET_OF__encode_sorted) fails */
  asn_enc_rval_t er = SET_OF_encode_der(&L_td, &l, 0, 0, vf_cb, 0);
  printf("encoded=%zd\n", er.encoded);
  return er.encoded == -1 ? 0 : 1;
}
