/* D-31 demonstration through the public API: asn_encode(ATS_CANONICAL_OER) of an extensible SEQUENCE with an output callback
 * that fails at once (e.g. a closed connection).  Before the fix the library aborts on assert(ret == 0); after: -1. */
#define VF_NATIVE 1
#define VF_ENTRY h_SEQUENCE_encode_oer
#define main main_unused
#include "/verif/harness/h_seq_enc.c"
#undef main
static int cb(const void *p, size_t n, void *k) { (void)p; (void)n; (void)k; return -1; }
int main(void) {
  static asn_TYPE_operation_t top; setup(); top.oer_encoder = SEQUENCE_encode_oer; T_td.op = &top;
  memset(&val, 0, sizeof(val)); val.a.v[0] = 1; val.c.v[0] = 2;
  asn_enc_rval_t er = asn_encode(0, ATS_CANONICAL_OER, &T_td, &val, cb, 0);
  printf("encoded=%zd\n", er.encoded);
  return er.encoded == -1 ? 0 : 1;
}
